------------------------------ MODULE UnitExpr ------------------------------
(***************************************************************************)
(* C03, expression level: what a unit EXPRESSION means.                    *)
(*                                                                         *)
(* A shape is a token string over  *  /  (  )  and atom names a1 a2 ...    *)
(* (the i-th atom occurrence is named a<i>); vals[i] is the atom standing  *)
(* there:  [k |-> "u", r |-> <<"u"|"s", p, u>>, e |-> q]   a unit atom     *)
(*         [k |-> "n", mant |-> m, e10 |-> e]              a number        *)
(*                                                                         *)
(* IDEAL: the tree of the documented grammar (SolverIdeal restricted to    *)
(*   * / and parentheses); the exponent of a unit id in the result is the  *)
(*   SUM over its occurrences of  sign * exponent, the sign being -1 for   *)
(*   every enclosing division whose right-hand side contains the           *)
(*   occurrence; the numeric factor is the product of literal^sign; the    *)
(*   dimension vector is the exact rational sum of exponent * table row;   *)
(*   the conversion factor is the TERM  prod (p10(prefix)*magnitude(u))^e. *)
(* MACHINE: the solver of SolverMachine.tla with the operator table        *)
(*   {par, mul, truediv} and the default steps, atoms read by              *)
(*   UnitAtom!MachAtom, values combined as Atom.__mul__/__truediv__ do     *)
(*   (insertion-ordered dict, zero entries deleted by BaseUnits).          *)
(***************************************************************************)
EXTENDS UnitAtom

AtomToks == {"a1", "a2", "a3", "a4", "a5", "a6"}
AtomIdx(t) == CASE t = "a1" -> 1 [] t = "a2" -> 2 [] t = "a3" -> 3 [] t = "a4" -> 4 [] t = "a5" -> 5 [] t = "a6" -> 6
AtomName(i) == <<"a1", "a2", "a3", "a4", "a5", "a6">>[i]

I == INSTANCE SolverIdeal WITH Atoms <- AtomToks
M == INSTANCE SolverMachine WITH
        Atoms <- AtomToks, BadAtoms <- {}, Lenient <- FALSE, PyEq <- FALSE,
        OpTable <- {"(", "*", "/"},
        Steps <- << [ops |-> {"(", "f1(", "f2("}, otype |-> "ARGS"],
                    [ops |-> {"+", "-"},          otype |-> "UNARY"],
                    [ops |-> {"**"},              otype |-> "BINARY"],
                    [ops |-> {"*", "/"},          otype |-> "BINARY"],
                    [ops |-> {"+", "-"},          otype |-> "BINARY"],
                    [ops |-> {"==", "!=", "<=", ">=", "<", ">"}, otype |-> "BINARY"],
                    [ops |-> {"!"},               otype |-> "UNARY"],
                    [ops |-> {"&&"},              otype |-> "BINARY"],
                    [ops |-> {"||"},              otype |-> "BINARY"] >>

UnitVal(r, e)  == [k |-> "u", r |-> r, e |-> e, mant |-> 0, e10 |-> 0, c |-> <<>>]
NumVal(m, e10) == [k |-> "n", r |-> <<"n", 0, 0>>, e |-> QZero, mant |-> m, e10 |-> e10, c |-> <<>>]
TextVal(c)     == [k |-> "t", r |-> <<"t", 0, 0>>, e |-> QZero, mant |-> 0, e10 |-> 0, c |-> c]   \* an atom given as text

(* ------------------------------------------------------------ text       *)
DigitChar(d) == <<"0", "1", "2", "3", "4", "5", "6", "7", "8", "9">>[d + 1]
RECURSIVE NatChars(_)
NatChars(n) == IF n < 10 THEN <<DigitChar(n)>> ELSE NatChars(n \div 10) \o <<DigitChar(n % 10)>>
IntChars(n) == IF n < 0 THEN <<"-">> \o NatChars(0 - n) ELSE NatChars(n)
ExpText(e) == IF e = QOne THEN <<>> ELSE IF e[2] = 1 THEN IntChars(e[1]) ELSE IntChars(e[1]) \o <<":">> \o IntChars(e[2])
IdSym(r) == IF r[1] = "s" THEN SysUnits[r[3]].sym ELSE PSym(r[2]) \o Units[r[3]].sym
IdDim(r) == IF r[1] = "s" THEN SysUnits[r[3]].dim ELSE Units[r[3]].dim
IdP(r)   == IF r[1] = "s" THEN "" ELSE PName(r[2])
IdU(r)   == IF r[1] = "s" THEN SysUnits[r[3]].name ELSE Units[r[3]].name
\* number literal text: mantissa, then e<exponent> when the exponent is not zero (integer mantissas only)
NumText(v) == IntChars(v.mant) \o (IF v.e10 = 0 THEN <<>> ELSE <<"e">> \o IntChars(v.e10))
AtomText(v) == IF v.k = "t" THEN v.c ELSE IF v.k = "n" THEN NumText(v) ELSE IdSym(v.r) \o ExpText(v.e)

RECURSIVE ShapeText(_, _)
ShapeText(shape, vals) ==
  IF shape = <<>> THEN <<>>
  ELSE (IF Head(shape) \in AtomToks THEN AtomText(vals[AtomIdx(Head(shape))]) ELSE <<Head(shape)>>) \o ShapeText(Tail(shape), vals)

(* ------------------------------------------------------------ IDEAL      *)
\* signs of the leaves of a Polish tree, left to right
RECURSIVE Signs(_, _, _)
Signs(tr, i, sg) ==          \* -> [s |-> sequence of signs, next |-> position after the subtree]
  IF tr[i] \in {"*", "/"}
  THEN LET a == Signs(tr, i + 1, sg)
           b == Signs(tr, a.next, IF tr[i] = "/" THEN 0 - sg ELSE sg)
       IN [s |-> a.s \o b.s, next |-> b.next]
  ELSE [s |-> <<sg>>, next |-> i + 1]
LeafSigns(tr) == Signs(tr, 1, 1).s
RECURSIVE Leaves(_)
Leaves(tr) == IF tr = <<>> THEN <<>> ELSE (IF Head(tr) \in AtomToks THEN <<AtomIdx(Head(tr))>> ELSE <<>>) \o Leaves(Tail(tr))

RECURSIVE QSum(_)
QSum(s) == IF s = <<>> THEN QZero ELSE QAdd(Head(s), QSum(Tail(s)))
RECURSIVE SelectSeqQ(_, _, _, _)
\* contributions sign*e of the leaves whose atom has unit id r
SelectSeqQ(lv, sg, vals, r) ==
  IF lv = <<>> THEN <<>>
  ELSE (IF vals[Head(lv)].k = "u" /\ vals[Head(lv)].r = r
        THEN <<IF Head(sg) = 1 THEN vals[Head(lv)].e ELSE QNeg(vals[Head(lv)].e)>> ELSE <<>>)
       \o SelectSeqQ(Tail(lv), Tail(sg), vals, r)
\* unit ids in order of first occurrence
RECURSIVE FirstIds(_, _, _)
FirstIds(lv, vals, seen) ==
  IF lv = <<>> THEN <<>>
  ELSE LET v == vals[Head(lv)] IN
       IF v.k = "u" /\ v.r \notin seen THEN <<v.r>> \o FirstIds(Tail(lv), vals, seen \cup {v.r})
       ELSE FirstIds(Tail(lv), vals, seen)

\* the ideal exponent map as a sequence of <<id, q>> (first-occurrence order, zeros dropped)
IdealMap(tr, vals) ==
  LET lv == Leaves(tr)  sg == LeafSigns(tr)  ids == FirstIds(lv, vals, {})
      all == [i \in 1..Len(ids) |-> <<ids[i], QSum(SelectSeqQ(lv, sg, vals, ids[i]))>>]
  IN SelectSeq(all, LAMBDA x : x[2][1] # 0)
\* numeric factor: exact  q * 10^e10  times the long literals kept as text with their signs
NoNum == [q |-> QOne, e10 |-> 0, lits |-> <<>>]
RECURSIVE IdealNumR(_, _, _)
IdealNumR(lv, sg, vals) ==       \* right to left, so prepend the literals to keep the text order
  IF lv = <<>> THEN NoNum
  ELSE LET rest == IdealNumR(Tail(lv), Tail(sg), vals)  v == vals[Head(lv)] IN
       IF v.k # "n" THEN rest
       ELSE IF v.c # <<>> THEN [rest EXCEPT !.lits = << <<Join(v.c), Head(sg)>> >> \o rest.lits]
       ELSE IF Head(sg) = 1 THEN [rest EXCEPT !.q = QMul(rest.q, <<v.mant, 1>>), !.e10 = rest.e10 + v.e10]
       ELSE [rest EXCEPT !.q = QDiv(rest.q, <<v.mant, 1>>), !.e10 = rest.e10 - v.e10]
IdealNum(lv, sg, vals) == IdealNumR(lv, sg, vals)
ZeroDivides(tr, vals) == LET lv == Leaves(tr) sg == LeafSigns(tr) IN
                         \E i \in 1..Len(lv) : vals[lv[i]].k = "n" /\ vals[lv[i]].c = <<>> /\ vals[lv[i]].mant = 0 /\ sg[i] # 1
MapSet(m) == {m[i] : i \in 1..Len(m)}

(* ------------------------------------------------------------ Base       *)
RECURSIVE DimSum(_)
DimSum(m) == IF m = <<>> THEN [i \in 1..8 |-> QZero]
             ELSE LET r == DimSum(Tail(m))  d == IdDim(Head(m)[1])  e == Head(m)[2]
                  IN [i \in 1..8 |-> QAdd(r[i], QMul(e, d[i]))]
\* conversion factor as a TERM over table entries (never evaluated here)
FactorOf(x) == LET r == x[1] e == x[2] IN
  IF r[1] = "s" THEN <<"powq", <<"tab", "sys", SysUnits[r[3]].name, "magnitude">>, e[1], e[2]>>
  ELSE IF r[2] = 0 THEN <<"powq", <<"tab", "unit", Units[r[3]].name, "magnitude">>, e[1], e[2]>>
  ELSE <<"powq", <<"mul", <<"p10", Prefixes[r[2]].p10>>, <<"tab", "unit", Units[r[3]].name, "magnitude">>>>, e[1], e[2]>>
FactorTerm(m) == <<"prod", [i \in 1..Len(m) |-> FactorOf(m[i])]>>
NumTerm(n) == <<"mul", <<"mul", <<"q", n.q[1], n.q[2]>>, <<"p10", n.e10>>>>,
                <<"prod", [i \in 1..Len(n.lits) |-> IF n.lits[i][2] = 1 THEN <<"lit", n.lits[i][1]>> ELSE <<"inv", <<"lit", n.lits[i][1]>>>>]>>>>

(* ------------------------------------------------------------ Render / Reparse *)
RECURSIVE Render(_)
Render(m) == IF m = <<>> THEN <<>>
             ELSE IdSym(Head(m)[1]) \o ExpText(Head(m)[2]) \o (IF Len(m) > 1 THEN <<"*">> \o Render(Tail(m)) ELSE <<>>)
RECURSIVE SplitStar(_, _)
SplitStar(t, cur) == IF t = <<>> THEN <<cur>>
                     ELSE IF Head(t) = "*" THEN <<cur>> \o SplitStar(Tail(t), <<>>)
                     ELSE SplitStar(Tail(t), Append(cur, Head(t)))
\* parse canonical text with the IDEAL atom reader; -> [ok, m]
Reparse(t) ==
  IF t = <<>> THEN [ok |-> TRUE, m |-> {}]
  ELSE LET ps == SplitStar(t, <<>>)
           os == [i \in 1..Len(ps) |-> IdealAtom(ps[i])]
       IN IF \E i \in 1..Len(ps) : os[i].cls \notin {"unit", "sys"} THEN [ok |-> FALSE, m |-> {}]
          ELSE [ok |-> TRUE,
                m  |-> {<<<<IF os[i].cls = "sys" THEN "s" ELSE "u", os[i].p, os[i].u>>, os[i].e>> : i \in 1..Len(ps)}]

(* ------------------------------------------------------------ MACHINE    *)
MHas(exps, id) == \E i \in 1..Len(exps) : exps[i][1] = id
MMerge(a, b, sub) ==          \* dict(self.baseunits) then the loop over other.baseunits.items()
  LET F[i \in 0..Len(b)] ==
        IF i = 0 THEN a
        ELSE LET acc == F[i - 1]  id == b[i][1]  e == b[i][2] IN
             IF MHas(acc, id)
             THEN [j \in 1..Len(acc) |-> IF acc[j][1] = id THEN <<id, IF sub THEN QSub(acc[j][2], e) ELSE QAdd(acc[j][2], e)>> ELSE acc[j]]
             ELSE Append(acc, <<id, IF sub THEN QNeg(e) ELSE e>>)
  IN F[Len(b)]
\* value of an atom object: [num |-> [q, e10], exps |-> <<<<id, q>>...>>, zd |-> float division by zero happened]
MAtomVal(o) == IF o.cls = "number" THEN
                  (IF o.lit # <<>> THEN [num |-> [NoNum EXCEPT !.lits = << <<Join(o.lit), 1>> >>], exps |-> <<>>, zd |-> FALSE]
                   ELSE [num |-> [NoNum EXCEPT !.q = <<o.num[1], 1>>, !.e10 = o.num[2]], exps |-> <<>>, zd |-> FALSE])
               ELSE [num |-> NoNum,
                     exps |-> << <<<<IF o.cls = "sys" THEN "s" ELSE "u", o.p, o.u>>, o.e>> >>, zd |-> FALSE]
MOp(op, a, b) ==
  IF op = "*" THEN [num |-> [q |-> QMul(a.num.q, b.num.q), e10 |-> a.num.e10 + b.num.e10, lits |-> a.num.lits \o b.num.lits],
                    exps |-> MMerge(a.exps, b.exps, FALSE), zd |-> a.zd \/ b.zd]
  ELSE IF b.num.q[1] = 0 THEN [num |-> a.num, exps |-> a.exps, zd |-> TRUE]
  ELSE [num |-> [q |-> QDiv(a.num.q, b.num.q), e10 |-> a.num.e10 - b.num.e10,
                 lits |-> a.num.lits \o [i \in 1..Len(b.num.lits) |-> <<b.num.lits[i][1], 0 - b.num.lits[i][2]>>]],
        exps |-> MMerge(a.exps, b.exps, TRUE), zd |-> a.zd \/ b.zd]
RECURSIVE MEval(_, _, _)
MEval(tr, i, avs) ==
  IF tr[i] \in {"*", "/"}
  THEN LET a == MEval(tr, i + 1, avs)  b == MEval(tr, a.next, avs)
       IN [v |-> MOp(tr[i], a.v, b.v), next |-> b.next]
  ELSE [v |-> avs[AtomIdx(tr[i])], next |-> i + 1]
\* BaseUnits.__init__: entries with a zero exponent are deleted, order kept
MBaseUnits(exps) == SelectSeq(exps, LAMBDA x : x[2][1] # 0)

\* whole machine: [err, units (ordered), num]; o = outcome of the solver machine on the shape,
\* os = what MachAtom made of the atom texts
MachineW(o, os) ==
  LET none == NoNum IN
  IF \E i \in 1..Len(os) : os[i].cls = "reject" THEN [err |-> TRUE, units |-> <<>>, num |-> none]
  ELSE IF o = M!MERR \/ o[1] \in {"#none", "#py", "#item"} THEN [err |-> TRUE, units |-> <<>>, num |-> none]
  ELSE LET v == MEval(o, 1, [i \in 1..Len(os) |-> MAtomVal(os[i])]).v
       IN IF v.zd THEN [err |-> TRUE, units |-> <<>>, num |-> none]
          ELSE [err |-> FALSE, units |-> MBaseUnits(v.exps), num |-> v.num]
MTree(s) == M!Outcome(M!SolveFresh(s))
Machine(shape, vals) == MachineW(MTree(shape), [i \in 1..Len(vals) |-> MachAtom(AtomText(vals[i]))])

(* ------------------------------------------------------------ classification *)
\* atoms named a1.. in order, never two atoms side by side (they would be one atom text)
RECURSIVE NAtoms(_)
NAtoms(s) == IF s = <<>> THEN 0 ELSE (IF Head(s) \in AtomToks THEN 1 ELSE 0) + NAtoms(Tail(s))
Adjacent(s) == \E i \in 1..(Len(s) - 1) : s[i] \in AtomToks /\ s[i + 1] \in AtomToks
ShapeClass(s) == IF s = <<>> THEN "unspecified" ELSE I!Class(s)

\* the atom a text denotes, as a value (the ideal works on what the TEXT means)
IVal(o) == IF o.cls = "number" THEN (IF o.lit # <<>> THEN [NumVal(0, 0) EXCEPT !.c = o.lit] ELSE NumVal(o.num[1], o.num[2]))
           ELSE UnitVal(<<IF o.cls = "sys" THEN "s" ELSE "u", o.p, o.u>>, o.e)
\* class of a whole scenario and the ideal expectation; c = class of the shape, tr = its ideal tree,
\* os = what IdealAtom made of the atom texts
IdealW(c, tr, os) ==
  LET none == NoNum IN
  IF c # "wellformed" THEN [cls |-> c, units |-> <<>>, num |-> none]
  ELSE IF \E i \in 1..Len(os) : os[i].cls = "unspecified" THEN [cls |-> "unspecified", units |-> <<>>, num |-> none]
  ELSE IF \E i \in 1..Len(os) : os[i].cls \in {"reject", "ambiguous"} THEN [cls |-> "ill:atom", units |-> <<>>, num |-> none]
  ELSE LET iv == [i \in 1..Len(os) |-> IVal(os[i])] IN
       IF ZeroDivides(tr, iv) THEN [cls |-> "unspecified", units |-> <<>>, num |-> none]
       ELSE [cls |-> "wellformed", units |-> IdealMap(tr, iv), num |-> IdealNum(Leaves(tr), LeafSigns(tr), iv)]
Ideal(shape, vals) == IdealW(ShapeClass(shape), I!Ideal(shape), [i \in 1..Len(vals) |-> IdealAtom(AtomText(vals[i]))])
\* an atom value written as text reads back as itself (for admissible prefixes)
AtomRoundTrip(v) == LET o == IdealAtom(AtomText(v)) IN
                    IF v.k = "t" THEN TRUE ELSE IF v.k = "n" THEN o.cls = "number" /\ (o.lit # <<>> \/ o.num = <<v.mant, v.e10>>)
                    ELSE o.cls \in {"unit", "sys"} /\ NormOut(o) = NormOut(Out(o.cls, v.r[2], v.r[3], v.e, <<0, 0>>))
MustReject(c) == c \in {"ill:unbalanced", "ill:missing_operand", "ill:atom"}
=============================================================================
