----------------------------- MODULE DipTreeGen -----------------------------
(***************************************************************************)
(* Enumerates DIP texts line by line (every reachable state is one text)   *)
(* and checks, for each, the machine transcription against the ideal:      *)
(*   Refines : they agree, or the disagreement is one of the named         *)
(*             deviation classes listed as open findings (KnownDevs), or   *)
(*             the text is in the undocumented band.                        *)
(* When Emit, prints one record per text for the replay harness.           *)
(* Indentation is consistent: the first line is at level 0 and a line is   *)
(* at most one level deeper than the line before it.                       *)
(***************************************************************************)
EXTENDS DipTree, Json, IOUtils

\* scenario names are single characters (a, b, g, h, -) or n<k>; only their order matters
GenNameChars(c) == <<c>>
GenCharOrd(ch) == CASE ch = "-" -> 45 [] ch = "a" -> 97 [] ch = "b" -> 98 [] ch = "g" -> 103 [] ch = "h" -> 104 [] OTHER -> 120

CONSTANTS Protos,      \* set of [k, nm, c] line prototypes
          MaxInd, MaxLines, Emit, KnownDevs,
          Stride,
          Source       \* "enum" : all texts up to MaxLines ; "file" : the texts of the JSON file env DIP_IN
                       \*          (longer texts drawn by the harness; TLC remains the oracle)

VARIABLES text, idx

FileTexts == IF Source = "file" THEN JsonDeserialize(IOEnv.DIP_IN) ELSE <<>>
\* texts of the file are spread over Stride initial states and reached by Next from there; long texts need
\* deep recursion, which only TLC's main thread (initial states) has the stack for: then Stride >= NFile
NFile == Len(FileTexts)

Init == IF Source = "enum" THEN text = <<>> /\ idx = 0
        ELSE idx \in 1..(IF NFile < Stride THEN NFile ELSE Stride) /\ text = FileTexts[idx]
Next == IF Source = "enum"
        THEN /\ Len(text) < MaxLines /\ idx' = idx
             /\ \E p \in Protos, i \in 0..MaxInd :
                   /\ i <= (IF text = <<>> THEN 0 ELSE Last(text).ind + 1)
                   /\ text' = Append(text, [k |-> p.k, ind |-> i, nm |-> p.nm, v |-> Len(text) + 1, c |-> p.c])
        ELSE /\ idx + Stride <= NFile /\ idx' = idx + Stride /\ text' = FileTexts[idx']

Record(t) == LET i == IdealRun(t)  m == MachRun(t)
             IN [text |-> t, ideal |-> [ok |-> i.ok, nodes |-> i.nodes], u |-> i.u,
                 mach |-> [ok |-> m.ok, nodes |-> m.nodes, err |-> m.err], dev |-> Dev(t)]

Refines == /\ Emit => PrintT(ToJson(Record(text)))
           /\ (Dev(text) \in KnownDevs \cup {"none"} \/ IdealRun(text).u)
=============================================================================
