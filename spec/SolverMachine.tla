--------------------------- MODULE SolverMachine ---------------------------
(***************************************************************************)
(* What the code does: a transcription of solver/solver.py, tokens.py and  *)
(* operators.py at token level.  One operator below per code block that    *)
(* changes Tokens.left / Tokens.right; the state-machine module Solver.tla *)
(* turns them into actions, SolverTrace.tla binds them to recorded runs.   *)
(*                                                                         *)
(* List items (what Tokens.left/right hold) are records                    *)
(*   [k |-> "t", tr |-> tree]             an atom object (value tree)      *)
(*   [k |-> "o", s |-> sym]               an operator object               *)
(*   [k |-> "f", s |-> open token, a |-> <<items>>]  parenthesis operator  *)
(*                                        with its already solved args     *)
(*   [k |-> "n"]                          Python None travelling in a list *)
(* all with the same four fields so that TLC can compare them.             *)
(***************************************************************************)
EXTENDS Naturals, Sequences, FiniteSets

CONSTANTS PyEq,         \* TRUE while `==`/`!=` between two non-atoms is object comparison (open finding eq-nonatom-sides; fixed by d5a5366)
          Lenient,      \* TRUE for AtomBase: its logical_and/or short-circuit like Python's and/or
          Atoms,        \* atom tokens the atom constructor accepts
          BadAtoms,     \* atom tokens on which the atom constructor raises
          OpTable,      \* set of operator tokens present in the solver's operator table
          Steps         \* sequence of [ops |-> set of tokens, otype |-> "ARGS"|"UNARY"|"BINARY"]

T(tree)     == [k |-> "t", s |-> "", tr |-> tree, a |-> <<>>]
O(sym)      == [k |-> "o", s |-> sym, tr |-> <<>>, a |-> <<>>]
F(sym, args)== [k |-> "f", s |-> sym, tr |-> <<>>, a |-> args]
NONE        == [k |-> "n", s |-> "", tr |-> <<>>, a |-> <<>>]
IsTree(i)   == i.k = "t"

\* "f1(" stands for any one-argument function, "f2(" for any two-argument function (scenario
\* generation); "logb(" and "pow(" are the two real ones with the trees the code builds for them
\* (trace validation, where trees are observed exactly)
MOpenToks == {"(", "f1(", "f2(", "logb(", "pow("}
MNArg(tok) == IF tok \in {"f2(", "logb(", "pow("} THEN 2 ELSE 1

\* the state of one Tokens object plus the outcome flag of the running call
St(l, r)  == [l |-> l, r |-> r, err |-> FALSE]
ErrSt(l, r) == [l |-> l, r |-> r, err |-> TRUE]      \* Python raised; lists as they were left

GetLeft(l)  == IF l = <<>> THEN [v |-> NONE, l |-> l] ELSE [v |-> l[Len(l)], l |-> SubSeq(l, 1, Len(l) - 1)]
GetRight(r) == IF r = <<>> THEN [v |-> NONE, r |-> r] ELSE [v |-> Head(r), r |-> Tail(r)]

(***************************************************************************)
(* OperatorAdd / OperatorSub . operate_unary : five ordered branches.      *)
(* Returns the branch number too (logged by the tracer).                   *)
(***************************************************************************)
UnaryBranch(sym, left, right) ==
  IF left.k = "n" /\ IsTree(right) THEN 1
  ELSE IF right.k = "o" /\ right.s = "+" THEN 2
  ELSE IF right.k = "o" /\ right.s = "-" THEN 3
  ELSE IF ~IsTree(left) /\ IsTree(right) THEN 4
  ELSE 5

UnaryAddSub(sym, l0, r0) ==
  LET gl == GetLeft(l0)  gr == GetRight(r0)
      left == gl.v  right == gr.v  l == gl.l  r == gr.r
      sgn(i) == IF sym = "+" THEN i ELSE T(<<"neg">> \o i.tr)
      flip   == IF sym = "+" THEN "-" ELSE "+"
      b == UnaryBranch(sym, left, right)
  IN CASE b = 1 -> St(Append(l, sgn(right)), r)
       [] b = 2 -> St(Append(l, left), <<IF sym = "+" THEN right ELSE O("-")>> \o r)
       [] b = 3 -> St(Append(l, left), <<IF sym = "+" THEN right ELSE O("+")>> \o r)
       [] b = 4 -> St(Append(l, left), <<sgn(right)>> \o r)
       [] b = 5 -> St(Append(Append(l, left), O(sym)), <<right>> \o r)

\* OperatorNot.operate_unary : right.logical_not() goes back to the RIGHT list
UnaryNot(l0, r0) ==
  LET gr == GetRight(r0)
  IN IF IsTree(gr.v) THEN St(l0, <<T(<<"!">> \o gr.v.tr)>> \o gr.r)
     ELSE ErrSt(l0, gr.r)                          \* AttributeError on None / operator

\* a Python object that is neither an atom, an operator nor None (the bool that `==` between
\* two non-atoms produces)
PY == [k |-> "p", s |-> "", tr |-> <<>>, a |-> <<>>]
PYQ == [k |-> "p", s |-> "?", tr |-> <<>>, a |-> <<>>]

\* every operate_binary : left OP right.  Both must be atoms or Python raises - except where
\* Python itself is lenient (named deviations, see known findings of C01):
\*   PyEq         `==`/`!=` between two non-atoms is object comparison and yields a bare bool
\*   ShortCircuit `a && <non-atom>` / `a || <non-atom>` never touches the right operand when the
\*                left value decides; the result node "&&?" / "||?" stands for "left if it
\*                decides, otherwise raises" (data dependent, resolved by the harness)
Binary(sym, l0, r0) ==
  LET gl == GetLeft(l0)  gr == GetRight(r0)
  IN IF IsTree(gl.v) /\ IsTree(gr.v)
     THEN St(Append(gl.l, T(<<sym>> \o gl.v.tr \o gr.v.tr)), gr.r)
     ELSE IF PyEq /\ sym \in {"==", "!="} /\ ~IsTree(gl.v) /\ ~IsTree(gr.v)
     THEN St(Append(gl.l, PY), gr.r)
     \* two bare Python booleans: Python computes with them (True ** True = 1, True < False ...);
     \* the result is again a bare Python object, or ZeroDivisionError: PYQ = "python object or raises"
     ELSE IF gl.v.k = "p" /\ gr.v.k = "p" /\ sym \in {"**", "*", "/", "+", "-", "<=", ">=", "<", ">"}
     THEN St(Append(gl.l, PYQ), gr.r)
     ELSE IF Lenient /\ sym \in {"&&", "||"} /\ IsTree(gl.v)
     THEN St(Append(gl.l, T(<<sym \o "?">> \o gl.v.tr)), gr.r)
     ELSE ErrSt(gl.l, gr.r)

\* operate_args : par passes its argument through whatever it is, functions need atoms
Args(tok, l0, r0) ==
  IF tok.s = "(" THEN St(Append(l0, tok.a[1]), r0)
  ELSE IF tok.s \in {"f2(", "pow("} /\ \A i \in 1..Len(tok.a) : tok.a[i].k = "p"
       THEN St(Append(l0, PYQ), r0)                 \* pow(True, True) = 1 ; logb would raise: "object or raises"
  ELSE IF \A i \in 1..Len(tok.a) : IsTree(tok.a[i])
       THEN St(Append(l0, T(CASE tok.s = "f1("   -> <<"f1">> \o tok.a[1].tr
                              [] tok.s = "f2("   -> <<"f2">> \o tok.a[1].tr \o tok.a[2].tr
                              [] tok.s = "logb(" -> <<"/", "f1">> \o tok.a[1].tr \o <<"f1">> \o tok.a[2].tr
                              [] tok.s = "pow("  -> <<"**">> \o tok.a[1].tr \o tok.a[2].tr)), r0)
       ELSE ErrSt(l0, r0)

\* does this list item belong to the operator classes of the running step?
InStep(tok, ops) == (tok.k = "o" /\ tok.s \in ops) \/ (tok.k = "f" /\ tok.s \in ops)

\* one iteration of the while loop of Tokens.operate: pop(0) and dispatch
Dispatch(l, r, ops, otype) ==
  LET tok == Head(r)  r1 == Tail(r) IN
  IF InStep(tok, ops) /\ otype = "UNARY" /\ tok.k = "o" /\ tok.s \in {"+", "-"} THEN UnaryAddSub(tok.s, l, r1)
  ELSE IF InStep(tok, ops) /\ otype = "UNARY" /\ tok.k = "o" /\ tok.s = "!" THEN UnaryNot(l, r1)
  ELSE IF InStep(tok, ops) /\ otype = "BINARY" /\ tok.k = "o" THEN Binary(tok.s, l, r1)
  ELSE IF InStep(tok, ops) /\ otype = "ARGS" /\ tok.k = "f" THEN Args(tok, l, r1)
  ELSE IF InStep(tok, ops) THEN ErrSt(l, r1)        \* operator lacks the operate_* method: AttributeError
  ELSE St(Append(l, tok), r1)                       \* put_left(token)

RECURSIVE Operate(_, _, _, _)
Operate(l, r, ops, otype) ==
  IF r = <<>> THEN St(<<>>, l)                      \* self.right = self.left ; self.left = []
  ELSE LET d == Dispatch(l, r, ops, otype) IN IF d.err THEN d ELSE Operate(d.l, d.r, ops, otype)

StepOps(i) == Steps[i].ops \cap OpTable
RECURSIVE RunSteps(_, _, _)
RunSteps(l, r, i) ==
  IF i > Len(Steps) THEN St(l, r)
  ELSE IF StepOps(i) = {} THEN RunSteps(l, r, i + 1)
  ELSE LET o == Operate(l, r, StepOps(i), Steps[i].otype) IN IF o.err THEN o ELSE RunSteps(o.l, o.r, i + 1)

(***************************************************************************)
(* Tokenisation at token level.  Tokens that are not in the operator table *)
(* are text and go to the atom constructor together with their neighbours. *)
(* Result: [err, app] where app is the sequence of items appended to       *)
(* Tokens.right before the scan ended (normally or by an exception).       *)
(***************************************************************************)
IsOperatorTok(t) == t \in OpTable
AtomOf(buf) == IF Len(buf) = 1 /\ buf[1] \in Atoms THEN T(<<buf[1]>>) ELSE NONE   \* NONE = constructor raises

\* position of the token closing the group opened just before position i, 0 if unclosed;
\* OperatorPar.__init__ counts every open symbol, in the table or not
RECURSIVE CloseIdx(_, _, _)
CloseIdx(s, i, d) == IF i > Len(s) THEN 0
                     ELSE IF s[i] \in MOpenToks THEN CloseIdx(s, i + 1, d + 1)
                     ELSE IF s[i] = ")" THEN (IF d = 1 THEN i ELSE CloseIdx(s, i + 1, d - 1))
                     ELSE CloseIdx(s, i + 1, d)
\* split s[i..j-1] at depth-1 commas
RECURSIVE SplitArgs(_, _, _, _, _)
SplitArgs(s, i, j, d, cur) ==
  IF i >= j THEN <<cur>>
  ELSE IF s[i] \in MOpenToks THEN SplitArgs(s, i + 1, j, d + 1, Append(cur, s[i]))
  ELSE IF s[i] = ")" THEN SplitArgs(s, i + 1, j, d - 1, Append(cur, s[i]))
  ELSE IF s[i] = "," /\ d = 1 THEN <<cur>> \o SplitArgs(s, i + 1, j, d, <<>>)
  ELSE SplitArgs(s, i + 1, j, d, Append(cur, s[i]))

RECURSIVE Tokenize(_, _, _, _), SolveFresh(_), SolveArgs(_, _)

\* es.solve(arg) for each argument in turn on ONE nested solver instance; a failure propagates.
\* (the nested instance is fresh and a failure ends the whole call, so no state is carried)
SolveArgs(args, done) ==
  IF args = <<>> THEN [err |-> FALSE, items |-> done]
  ELSE LET r == SolveFresh(Head(args))
       IN IF r.err THEN [err |-> TRUE, items |-> done] ELSE SolveArgs(Tail(args), Append(done, r.v))

Tokenize(s, i, buf, app) ==
  IF i > Len(s) THEN
     (IF buf = <<>> THEN [err |-> FALSE, app |-> app]
      ELSE LET a == AtomOf(buf) IN IF a.k = "n" THEN [err |-> TRUE, app |-> app]
                                  ELSE [err |-> FALSE, app |-> Append(app, a)])
  ELSE IF IsOperatorTok(s[i]) THEN
     LET a    == AtomOf(buf)
         app1 == IF buf = <<>> THEN app ELSE Append(app, a)
     IN IF buf # <<>> /\ a.k = "n" THEN [err |-> TRUE, app |-> app]
        ELSE IF s[i] \in MOpenToks THEN
             LET j == CloseIdx(s, i + 1, 1) IN
             IF j = 0 THEN [err |-> TRUE, app |-> app1]                      \* Unclosed parenthesis
             ELSE LET args == SplitArgs(s, i + 1, j, 1, <<>>) IN
                  IF Len(args) # MNArg(s[i]) THEN [err |-> TRUE, app |-> app1]   \* Wrong number of arguments
                  ELSE LET sa == SolveArgs(args, <<>>) IN
                       IF sa.err THEN [err |-> TRUE, app |-> app1]
                       ELSE Tokenize(s, j + 1, <<>>, Append(app1, F(s[i], sa.items)))
        ELSE Tokenize(s, i + 1, <<>>, Append(app1, O(s[i])))
  ELSE Tokenize(s, i + 1, Append(buf, s[i]), app)

\* the whole of solve() after tokenisation, starting from given list contents
Finish(l, r) ==
  LET rs == RunSteps(l, r, 1) IN
  IF rs.err THEN [err |-> TRUE, v |-> NONE, l |-> rs.l, r |-> rs.r]
  ELSE IF Len(rs.l) > 0 \/ Len(rs.r) > 1 THEN [err |-> TRUE, v |-> NONE, l |-> rs.l, r |-> rs.r]
  ELSE LET g == GetRight(rs.r) IN [err |-> FALSE, v |-> g.v, l |-> rs.l, r |-> g.r]

\* solve(s) on an instance whose lists currently hold l0, r0
SolveFrom(s, l0, r0) ==
  LET tk == Tokenize(s, 1, <<>>, <<>>) IN
  IF tk.err THEN [err |-> TRUE, v |-> NONE, l |-> l0, r |-> r0 \o tk.app]
  ELSE Finish(l0, r0 \o tk.app)

SolveFresh(s) == SolveFrom(s, <<>>, <<>>)

\* observable outcome of a call: the Polish tree, or a marker
MERR == <<"#err">>
Outcome(res) == IF res.err THEN MERR
                ELSE IF IsTree(res.v) THEN res.v.tr
                ELSE IF res.v.k = "n" THEN <<"#none">>
                ELSE IF res.v.k = "p" THEN (IF res.v.s = "?" THEN <<"#py?">> ELSE <<"#py">>)
                ELSE <<"#item">>

\* which named deviations (see Binary) shaped an outcome
DevTags(o) == (IF o \in {<<"#py">>, <<"#py?">>} THEN {"eq_nonatom_sides"} ELSE {})
              \cup (IF \E i \in 1..Len(o) : o[i] \in {"&&?", "||?"} THEN {"logic_rhs_missing"} ELSE {})
=============================================================================
