----------------------------- MODULE QuantityHeap -----------------------------
(***************************************************************************)
(* C07 - the machine: a heap of the mutable objects of the code, and one   *)
(* action per public operation passing exactly the references the code     *)
(* passes.                                                                 *)
(*                                                                         *)
(*   mags  : Magnitude cells  [q, rep, lin, e, dec, arr, z]                *)
(*           q/e tokens as in the ideal; rep = the units the stored number *)
(*           is expressed in; lin = how many times the number was          *)
(*           overwritten by its linear-scale image (level addition)        *)
(*   dicts : the exponent dicts  [u]      (shared by BaseUnits(BaseUnits)) *)
(*   bus   : BaseUnits cells  [d, dm]     d = dict reference, dm = the     *)
(*           cached factor was promoted to Decimal                         *)
(*   objs  : Quantity objects [m, b]      REFERENCES into mags / bus       *)
(*                                                                         *)
(* The ideal (QuantityIdeal) runs in lock step on the variable io.         *)
(* Fixed = {} transcribes the pinned code; its departures from the ideal   *)
(* are the NAMED DEVIATIONS (AllDevs, DevName).  A deviation listed in      *)
(* Fixed is modelled as repaired (the conversion / assignment is done on a *)
(* copy).  With Fixed = AllDevs TLC checks Frame and NoShare (the design   *)
(* is sound); with Fixed = {} it finds the aliasing counterexamples.       *)
(*                                                                         *)
(*   Frame   : every object's projection (value token, units, error token) *)
(*             through the heap equals its ideal value                     *)
(*   NoShare : no two quantity objects reference the same Magnitude cell   *)
(*   Immutable (action property): BaseUnits cells never change their dict  *)
(*             and dicts never change - sharing them is harmless           *)
(***************************************************************************)
EXTENDS QuantityIdeal, TLC

CONSTANTS Fixed,          \* the named deviations that are REPAIRED in the modelled code ({} = the pinned tree)
          Configs,        \* set of initial configurations: sequences of [u, dec, arr, err]
          PureOps,        \* operations (not in-place) the histories may use
          InplOps,        \* in-place methods the histories may use
          MaxSteps, MaxPure, MaxInpl

VARIABLES S,              \* the heap [mags, bus, dicts, objs]
          io,             \* the ideal's objects
          hist,           \* the history: sequence of step records (for emission / replay)
          cfg,            \* the chosen initial configuration
          npure, ninpl
vars == <<S, io, hist, cfg, npure, ninpl>>

AllDevs == {"rhs_converted_in_place", "log_operands_to_linear", "arg_converted_in_place", "operand_to_rad",
            "operand_to_none", "ctor_shares_magnitude", "ctor_mutates_magnitude", "decimal_promoted_in_place"}
Fx(d) == d \in Fixed
-----------------------------------------------------------------------------
\* heap helpers
NewMag(T, c) == [T EXCEPT !.mags = Append(@, c)]
NewDict(T, u) == [T EXCEPT !.dicts = Append(@, [u |-> u])]
NewBU(T, d) == [T EXCEPT !.bus = Append(@, [d |-> d, dm |-> FALSE])]
FreshBU(T, u) == LET T1 == NewDict(T, u) IN NewBU(T1, Len(T1.dicts))        \* BaseUnits('text') / BaseUnits(dict)
MUnit(T, b) == T.dicts[T.bus[b].d].u
OUnit(T, o) == MUnit(T, T.objs[o].b)
OMag(T, o) == T.mags[T.objs[o].m]

\* UnitType.convert(magnitude1) with baseunits1 = b1, baseunits2 = b2: Decimal promotion writes into the operand's
\* Magnitude and both BaseUnits; the result is a new Magnitude carrying the SAME error.  Result = last cell of mags.
ConvertM(T, m, b1, b2) ==
  LET pr == T.mags[m].dec \/ T.bus[b1].dm \/ T.bus[b2].dm
      \* magnitude1.value = Decimal(magnitude1.value) etc.: the operand's own cells are rewritten (named deviation
      \* decimal_promoted_in_place: a float quantity reports a Decimal afterwards)
      T1 == IF pr /\ ~Fx("decimal_promoted_in_place")
            THEN [T EXCEPT !.mags[m].dec = TRUE, !.bus[b1].dm = TRUE, !.bus[b2].dm = TRUE] ELSE T
  IN NewMag(T1, [T.mags[m] EXCEPT !.rep = MUnit(T, b2), !.dec = pr])

\* Quantity.to(BaseUnits object b0): BaseUnits(b0) is a new object sharing b0's dict
ToBU(T, o, b0) ==
  LET T1 == NewBU(T, T.bus[b0].d)
      nb == Len(T1.bus)
      T2 == ConvertM(T1, T1.objs[o].m, T1.objs[o].b, nb)
  IN [T2 EXCEPT !.objs[o] = [m |-> Len(T2.mags), b |-> nb]]
\* Quantity.to('text') / to(None)
ToStr(T, o, u) ==
  LET T1 == FreshBU(T, u)
      nb == Len(T1.bus)
      T2 == ConvertM(T1, T1.objs[o].m, T1.objs[o].b, nb)
  IN [T2 EXCEPT !.objs[o] = [m |-> Len(T2.mags), b |-> nb]]

\* the repaired operations convert a COPY: _convert(o.magnitude, o.baseunits, target) / o.value('text') return a new
\* Magnitude and leave o's references alone (only the Decimal promotion still writes into o's cells)
ConvCopyBU(T, o, b2) == ConvertM(T, T.objs[o].m, T.objs[o].b, b2)
ConvCopyStr(T, o, u) == LET T1 == FreshBU(T, u) IN ConvertM(T1, T1.objs[o].m, T1.objs[o].b, Len(T1.bus))

\* Quantity(Magnitude m, BaseUnits b): both stored by reference; a dimensionless total gets new BaseUnits (and the
\* factors of the dropped units are multiplied in: a new Magnitude)
QInit(T, m, b) ==
  LET u == MUnit(T, b) IN
  IF ZeroDim(u) THEN
     LET cu == Cancel(u)
         T1 == FreshBU(T, cu)
         T2 == IF cu # u THEN NewMag(T1, [T1.mags[m] EXCEPT !.rep = cu]) ELSE T1
         mm == IF cu # u THEN Len(T2.mags) ELSE m
     IN [T2 EXCEPT !.objs = Append(@, [m |-> mm, b |-> Len(T2.bus)])]
  ELSE [T EXCEPT !.objs = Append(@, [m |-> m, b |-> b])]

Cell(RO, rep) == [q |-> RO.q, rep |-> rep, lin |-> 0, e |-> RO.e, dec |-> RO.dec, arr |-> RO.arr, z |-> RO.z]
\* a sum / linspace is computed from the converted copy of the right operand (the last Magnitude made): a promoted copy
\* makes the result a Decimal
WithConv(RO, T) == [RO EXCEPT !.dec = @ \/ T.mags[Len(T.mags)].dec]
\* a result with a new Magnitude and new BaseUnits of units u
ResFresh(T, RO, u) ==
  LET T1 == FreshBU(T, u)
      T2 == NewMag(T1, Cell(RO, u))
  IN QInit(T2, Len(T2.mags), Len(T2.bus))
\* a result with a new Magnitude that is handed the BaseUnits OBJECT b of an operand
ResShareBU(T, RO, b) ==
  LET T1 == NewMag(T, Cell(RO, MUnit(T, b))) IN QInit(T1, Len(T1.mags), b)

-----------------------------------------------------------------------------
\* UnitType.convert promotes with Decimal(magnitude1.value): an array operand makes that raise (before anything is written)
PromoRaises(T, o, dm2) ==
  ~Fx("decimal_promoted_in_place") /\ OMag(T, o).arr /\ (OMag(T, o).dec \/ T.bus[T.objs[o].b].dm \/ dm2)
MConvRaises(A, T) ==
  CASE A.op \in {"add", "sub", "np.linspace", "np.logspace"} -> PromoRaises(T, A.y, T.bus[T.objs[A.x].b].dm)
    [] A.op = "eq" -> ~OMag(T, A.y).z /\ PromoRaises(T, A.y, FALSE)
    [] A.op \in {"value", "to", "radd", "rsub", "radd0", "radd0f", "sum1"} \cup SinOps \cup ArcOps -> PromoRaises(T, A.x, FALSE)
    [] A.op = "sum2" -> PromoRaises(T, A.x, FALSE) \/ PromoRaises(T, A.y, FALSE)
    [] OTHER -> FALSE
\* the machine step.  RO = the result object (tokens, flags) computed from the MACHINE's view of the operands,
\* refused = the machine's own refusal (RefusesOn asked about its view of the operands)
MStep(A, T, RO, refused, tok) ==
  LET x == A.x  y == A.y  op == A.op IN
  CASE op \in {"add", "sub"} ->
         \* the dimension / unit check comes first; then the right operand is converted; only then may the magnitudes
         \* turn out not to combine (Decimal with array)
         IF AddUnitsRefused(OUnit(T, x), OUnit(T, y)) \/ MConvRaises(A, T) THEN T
         ELSE IF IsLog(OUnit(T, x)) THEN
            \* LogarithmicUnitType.add/sub: mag1 = unit1.magnitude ; mag2 = unit2.to(..).magnitude ; both .value overwritten
            LET m1 == T.objs[x].m
                T1 == IF Fx("log_operands_to_linear") THEN ConvCopyBU(T, y, T.objs[x].b) ELSE ToBU(T, y, T.objs[x].b)
                m2 == T1.objs[y].m
                T2 == IF Fx("log_operands_to_linear") THEN T1 ELSE [T1 EXCEPT !.mags[m1].lin = @ + 1]
                T3 == IF Fx("log_operands_to_linear") THEN T2 ELSE [T2 EXCEPT !.mags[m2].lin = @ + 1]
            IN IF refused THEN T3 ELSE ResShareBU(T3, WithConv(RO, T1), T3.objs[x].b)
         ELSE
            \* UnitType.add/sub: unit2.to(unit1.baseunits) converts the right operand IN PLACE (a copy since 1a9ae55)
            LET T1 == IF Fx("rhs_converted_in_place") THEN ConvCopyBU(T, y, T.objs[x].b) ELSE ToBU(T, y, T.objs[x].b)
            IN IF refused THEN T1 ELSE ResShareBU(T1, WithConv(RO, T1), T1.objs[x].b)
    [] op \in {"mul", "div"} ->
         IF refused THEN T ELSE ResFresh(T, RO, ExMerge(OUnit(T, x), OUnit(T, y), IF op = "mul" THEN 1 ELSE -1))
    [] op = "eq" ->
         \* other.to(self.units()) unless other is zero - before the comparison itself may fail on a Decimal
         IF ~Convertible(OUnit(T, y), OUnit(T, x)) \/ OMag(T, y).z \/ MConvRaises(A, T) THEN T
         ELSE IF Fx("rhs_converted_in_place") THEN ConvCopyStr(T, y, OUnit(T, x)) ELSE ToStr(T, y, OUnit(T, x))
    [] op \in {"np.linspace", "np.logspace"} ->
         \* b = b.to(a.baseunits) - before numpy itself may fail on a Decimal
         IF ~Convertible(OUnit(T, y), OUnit(T, x)) \/ MConvRaises(A, T) THEN T
         ELSE LET T1 == IF Fx("arg_converted_in_place")
                        THEN ConvCopyBU(T, y, T.objs[x].b)        \* b._convert(b.magnitude, b.baseunits, a.baseunits)
                        ELSE ToBU(T, y, T.objs[x].b)
              IN IF refused THEN T1 ELSE ResShareBU(T1, WithConv(RO, T1), T1.objs[x].b)
    [] op = "sum2" ->
         \* (0 + x) + y : both quantities are converted (copies) to the units of the temporary left operand
         IF refused THEN T
         ELSE LET T0 == FreshBU(T, UNone)
                  T1 == IF Fx("rhs_converted_in_place") THEN ConvCopyBU(T0, x, Len(T0.bus)) ELSE ToBU(T0, x, Len(T0.bus))
                  T2 == IF Fx("rhs_converted_in_place") THEN ConvCopyBU(T1, y, Len(T0.bus)) ELSE ToBU(T1, y, Len(T0.bus))
              IN ResFresh(T2, RO, UNone)
    [] op \in {"radd", "rsub", "radd0", "radd0f", "sum1"} ->
         \* left = Quantity(number) ; self.to(left.baseunits)
         IF refused THEN T
         ELSE LET T0 == FreshBU(T, UNone)
                  T1 == IF Fx("rhs_converted_in_place") THEN ConvCopyBU(T0, x, Len(T0.bus)) ELSE ToBU(T0, x, Len(T0.bus))
              IN ResFresh(T1, RO, UNone)
    [] op \in {"addn", "subn", "addn0", "subn0", "np.linspace_nq", "np.logspace_nq", "np.linspace_qn", "np.logspace_qn"} \cup KeepOps ->
         IF refused THEN T ELSE ResShareBU(T, RO, T.objs[x].b)
    [] op \in {"muln", "divn", "rmul", "muln1", "divn1", "rmul1"} -> IF refused THEN T ELSE ResFresh(T, RO, OUnit(T, x))
    [] op = "rdiv" -> IF refused THEN T ELSE ResFresh(T, RO, ExScale(OUnit(T, x), RInt(-1)))
    [] op \in PowOps -> IF refused THEN T ELSE ResFresh(T, RO, ExScale(OUnit(T, x), PowN(op)))
    [] op \in SinOps ->
         \* inputs[0].to('rad') - before the function itself may fail on a Decimal
         IF ~Convertible(OUnit(T, x), URad) \/ MConvRaises(A, T) THEN T
         ELSE LET T1 == IF Fx("operand_to_rad") THEN ConvCopyStr(T, x, URad) ELSE ToStr(T, x, URad) IN IF refused THEN T1 ELSE ResFresh(T1, RO, UNone)
    [] op \in ArcOps ->
         IF ~Convertible(OUnit(T, x), UNone) \/ MConvRaises(A, T) THEN T
         ELSE LET T1 == IF Fx("operand_to_none") THEN ConvCopyStr(T, x, UNone) ELSE ToStr(T, x, UNone) IN IF refused THEN T1 ELSE ResFresh(T1, RO, URad)
    [] op = "value" ->
         \* _convert(self.magnitude, self.baseunits, BaseUnits(expression)): only the Decimal promotion touches self
         IF refused THEN T
         ELSE LET T1 == FreshBU(T, A.arg) IN ConvertM(T1, T1.objs[x].m, T1.objs[x].b, Len(T1.bus))
    [] op = "ctor_dict" ->
         \* Quantity(x.magnitude, {...}) : the Magnitude object is stored by reference
         LET T1 == FreshBU(T, OUnit(T, x))
             T2 == IF Fx("ctor_shares_magnitude") THEN NewMag(T1, OMag(T1, x)) ELSE T1
         IN QInit(T2, IF Fx("ctor_shares_magnitude") THEN Len(T2.mags) ELSE T2.objs[x].m, Len(T2.bus))
    [] op = "ctor_dict_abse" ->
         \* Quantity(x.magnitude, {...}, abse=..) : magnitude.abse(abse) on the PASSED object, then stored by reference
         LET T1 == FreshBU(T, OUnit(T, x))
             T2 == IF Fx("ctor_mutates_magnitude") THEN NewMag(T1, [OMag(T1, x) EXCEPT !.e = tok])
                   ELSE [T1 EXCEPT !.mags[T1.objs[x].m].e = tok]
         IN QInit(T2, IF Fx("ctor_mutates_magnitude") THEN Len(T2.mags) ELSE T2.objs[x].m, Len(T2.bus))
    [] op = "to" -> IF refused THEN T ELSE ToStr(T, x, A.arg)
    [] op = "rebase" /\ refused -> T
    [] op \in {"abse_set", "rele_set"} /\ refused -> T
    [] op = "rebase" ->
         \* self.magnitude *= factor (a new Magnitude) ; self.baseunits = BaseUnits({...})
         LET T1 == FreshBU(T, Rebase(OUnit(T, x)))
             T2 == NewMag(T1, [OMag(T1, x) EXCEPT !.rep = Rebase(OUnit(T, x))])
         IN [T2 EXCEPT !.objs[x] = [m |-> Len(T2.mags), b |-> Len(T2.bus)]]
    [] op \in {"abse_set", "rele_set"} -> [T EXCEPT !.mags[T.objs[x].m].e = tok]     \* written into the cell
    [] OTHER -> T                                                                      \* queries

\* the machine's view of its objects as value records, its own refusal and its own result object
MObj(T, o) == LET c == OMag(T, o) IN [q |-> c.q, u |-> OUnit(T, o), e |-> c.e, dec |-> c.dec, arr |-> c.arr, z |-> c.z]
MIo(T) == [o \in 1..Len(T.objs) |-> MObj(T, o)]
MRefuses(A, T) == RefusesOn(A, MObj(T, A.x), IF A.y > 0 THEN MObj(T, A.y) ELSE MObj(T, A.x)) \/ MConvRaises(A, T)

\* the name under which a departure of object o during action A is known
DevName(A, T, o) ==
  CASE A.op \in InplaceOps -> "shares_magnitude_with_receiver"
    [] A.op \in {"add", "sub"} -> IF IsLog(OUnit(T, A.x)) THEN "log_operands_to_linear" ELSE "rhs_converted_in_place"
    [] A.op \in {"eq", "radd", "rsub", "radd0", "radd0f", "sum1", "sum2"} -> "rhs_converted_in_place"
    [] A.op \in {"np.linspace", "np.logspace"} -> "arg_converted_in_place"
    [] A.op \in SinOps -> "operand_to_rad"
    [] A.op \in ArcOps -> "operand_to_none"
    [] A.op = "ctor_dict_abse" -> "ctor_mutates_magnitude"
    [] OTHER -> "unnamed"

-----------------------------------------------------------------------------
\* projections
MProj(T, o) == LET c == OMag(T, o) IN [q |-> c.q, rep |-> c.rep, lin |-> c.lin, u |-> OUnit(T, o), e |-> c.e]
IProj(r) == [q |-> r.q, rep |-> r.u, lin |-> 0, u |-> r.u, e |-> r.e]

InitHeap(c) ==
  [mags  |-> [i \in DOMAIN c |-> [q |-> i, rep |-> c[i].u, lin |-> 0, e |-> IF c[i].err THEN i ELSE 0,
                                    dec |-> c[i].dec, arr |-> c[i].arr, z |-> FALSE]],
   dicts |-> [i \in DOMAIN c |-> [u |-> c[i].u]],
   bus   |-> [i \in DOMAIN c |-> [d |-> i, dm |-> FALSE]],
   objs  |-> [i \in DOMAIN c |-> [m |-> i, b |-> i]]]
InitIdeal(c) == [i \in DOMAIN c |-> [q |-> i, u |-> c[i].u, e |-> IF c[i].err THEN i ELSE 0,
                                      dec |-> c[i].dec, arr |-> c[i].arr, z |-> FALSE]]

Init == /\ cfg = <<>> /\ S = InitHeap(<<>>) /\ io = <<>> /\ hist = <<>> /\ npure = 0 /\ ninpl = 0

Choose == /\ cfg = <<>> /\ cfg' \in Configs
          /\ S' = InitHeap(cfg') /\ io' = InitIdeal(cfg') /\ UNCHANGED <<hist, npure, ninpl>>

\* the actions enabled in the ideal state
Objs == 1..Len(io)
Actions ==
  {Act(op, x, y, <<>>) : op \in PureOps \cap QQOps, x \in Objs, y \in Objs}
  \cup {Act(op, x, 0, <<>>) : op \in PureOps \cap (NQOps \cup QNOps \cup UnaryOps), x \in Objs}
  \cup UNION {{Act("value", x, 0, u) : u \in Targets(io[x].u) \cup {io[x].u}} : x \in IF "value" \in PureOps THEN Objs ELSE {}}
  \cup UNION {{Act("to", x, 0, u) : u \in Targets(io[x].u)} : x \in IF "to" \in InplOps THEN Objs ELSE {}}
  \cup {Act(op, x, 0, <<>>) : op \in InplOps \ {"to"}, x \in Objs}

NoObj == [q |-> 0, u |-> UNone, e |-> 0, dec |-> FALSE, arr |-> FALSE, z |-> FALSE]
\* (the singleton quantifiers bind I and T to VALUES: TLC would otherwise re-evaluate the LET bodies at every use)
Step(A) ==
  LET inpl == A.op \in InplaceOps
      tok == 100 + Len(hist)
  IN /\ Len(hist) < MaxSteps
     /\ IF inpl THEN ninpl < MaxInpl ELSE npure < MaxPure
     \* a history ends where the pinned machine, having left the ideal, refuses a call the ideal accepts (the object
     \* lists are then no longer aligned)
     /\ Len(S.objs) = Len(io)
     /\ \E I \in {IStep(A, io, tok)} :
        \E mref \in {MRefuses(A, S)} :
        \E T \in {MStep(A, S, IF HasResult(A.op) /\ ~mref THEN ResObj(A, MIo(S), tok) ELSE NoObj, mref, tok)} :
          LET old == 1..Len(S.objs)
              \* departures of this step: objects other than the receiver whose projection changes (must = TRUE) or whose
              \* Magnitude is replaced by a converted copy of equal projection (must = FALSE: x.f/f may differ from x in the last bit)
              devs == {[o |-> o, d |-> DevName(A, S, o), must |-> MProj(T, o) # MProj(S, o)] :
                          o \in {o \in old : o # I.recv /\ (MProj(T, o) # MProj(S, o) \/ T.objs[o].m # S.objs[o].m)}}
                      \cup {[o |-> o, d |-> "decimal_promoted_in_place", must |-> TRUE] :
                               o \in {o \in old : o # I.recv /\ OMag(T, o).dec # OMag(S, o).dec}}
          IN /\ S' = T /\ io' = I.io
             /\ hist' = Append(hist, [a |-> A, res |-> I.res, raises |-> I.raises, recv |-> I.recv, devs |-> devs, mraises |-> mref,
                                      mres |-> IF Len(T.objs) > Len(S.objs) THEN Len(T.objs) ELSE 0,
                                      iu |-> [o \in 1..Len(I.io) |-> I.io[o].u],
                                      mu |-> [o \in 1..Len(T.objs) |-> OUnit(T, o)],
                                      sh |-> [o \in 1..Len(T.objs) |-> <<T.objs[o].m, T.objs[o].b, T.bus[T.objs[o].b].d>>],
                                      fl |-> [o \in 1..Len(T.objs) |-> <<OMag(T, o).dec, T.bus[T.objs[o].b].dm, OMag(T, o).lin>>]])
     /\ npure' = IF inpl THEN npure ELSE npure + 1
     /\ ninpl' = IF inpl THEN ninpl + 1 ELSE ninpl
     /\ UNCHANGED cfg

Next == Choose \/ (cfg # <<>> /\ \E A \in Actions : Step(A))
Spec == Init /\ [][Next]_vars

-----------------------------------------------------------------------------
\* properties
Frame == \A o \in 1..Len(S.objs) : o <= Len(io) /\ MProj(S, o) = IProj(io[o])
NoShare == \A o1, o2 \in 1..Len(S.objs) : o1 # o2 => S.objs[o1].m # S.objs[o2].m
SameObjects == Len(S.objs) = Len(io)
\* BaseUnits cells keep their dict, dicts keep their content: sharing them cannot be observed
Immutable == [][/\ \A b \in 1..Len(S.bus) : S'.bus[b].d = S.bus[b].d
               /\ \A d \in 1..Len(S.dicts) : S'.dicts[d] = S.dicts[d]]_vars
\* the deviations named so far explain every departure the pinned machine can make
AllNamed == \A k \in 1..Len(hist) : \A dv \in hist[k].devs : dv.d # "unnamed"

\* the view of the exhaustive "deep" configuration: everything but the path
HeapView == <<S, io, cfg, npure, ninpl, Len(hist)>>
=============================================================================
