------------------------------- MODULE DipQuery -------------------------------
(***************************************************************************)
(* Node selection of DIP (growth beyond C17, DESIGN section 6):            *)
(*   NodeList.query(query, tags) / Environment.request("?query", count,    *)
(*   tags) / Environment.data(query=, tags=) / ExportConfig.select /       *)
(*   the import `host {?query}`                                            *)
(* as a FUNCTION from an ordered node list (dotted names, tags) and a      *)
(* query to the ordered selection with the names relative to the query.    *)
(*                                                                         *)
(* IDEAL (documentation, references.rst / properties.rst / example.rst):   *)
(*   works on name COMPONENTS.  `*` all nodes; `p.*` every node below p    *)
(*   (p a proper component-prefix), names relative to p; `p` the node named *)
(*   p, named by its last component; list order kept; a tag selector keeps *)
(*   the nodes that carry the tag - for several tags the documentation     *)
(*   does not say any/all, both readings are emitted; count: the number of *)
(*   selected nodes must equal the count / be in the list, else the        *)
(*   request is rejected.                                                  *)
(* MACHINE (lists/list_nodes.py, environment.py): works on the STRING,     *)
(*   here a sequence of atoms ("grid", "s", "_fine", ".", "x", "*") so     *)
(*   that str.startswith / slicing are sequence operations: query=="*";    *)
(*   query[-2:]==".*" -> name.startswith(query[:-1]), name[len(..):];      *)
(*   else name==query -> name.split(".")[-1]; tags: `node.tags and         *)
(*   np.isin(tags, node.tags)` (truth value of an array); request: empty   *)
(*   local list raises, `if count:` skips count 0.                         *)
(* Every reachable state is one node list; its record holds all queries.   *)
(***************************************************************************)
EXTENDS Naturals, Sequences, FiniteSets, TLC, Json

CONSTANTS Menu,      \* sequence of [atoms, comps, tags, val]: candidate nodes (name as atoms and as components)
          Queries,   \* sequence of [atoms, kind ("all"|"children"|"node"), path (components)]
          TagSels,   \* sequence of tag lists (non-empty)
          Counts,    \* sequence of [kind ("int"|"list"), n, lst]
          MaxNodes, Emit

VARIABLE lst          \* sequence of distinct Menu indices = the node list, in definition order
vars == <<lst>>

RECURSIVE Cat(_)
Cat(s) == IF s = <<>> THEN "" ELSE Head(s) \o Cat(Tail(s))
RECURSIVE Dotted(_)
Dotted(c) == IF Len(c) = 1 THEN c[1] ELSE c[1] \o "." \o Dotted(Tail(c))
StartsWith(s, p) == Len(p) <= Len(s) /\ SubSeq(s, 1, Len(p)) = p
ToSet(s) == {s[j] : j \in 1..Len(s)}
Node(j) == Menu[lst[j]]
Pos == 1..Len(lst)
PosSeq == [j \in 1..Len(lst) |-> j]

\* menu and queries are given in both spellings; they must be the same strings
Consistent == /\ \A k \in 1..Len(Menu) : Cat(Menu[k].atoms) = Dotted(Menu[k].comps)
              /\ \A k \in 1..Len(Queries) :
                   Cat(Queries[k].atoms) = CASE Queries[k].kind = "all" -> "*"
                                             [] Queries[k].kind = "children" -> Dotted(Queries[k].path) \o ".*"
                                             [] OTHER -> Dotted(Queries[k].path)

ASSUME Consistent
-----------------------------------------------------------------------------
(* IDEAL *)
IHit(q, j) == LET c == Node(j).comps IN
              CASE q.kind = "all" -> TRUE
                [] q.kind = "children" -> Len(q.path) < Len(c) /\ SubSeq(c, 1, Len(q.path)) = q.path
                [] OTHER -> c = q.path
IRel(q, j) == LET c == Node(j).comps IN
              CASE q.kind = "all" -> Dotted(c)
                [] q.kind = "children" -> Dotted(SubSeq(c, Len(q.path) + 1, Len(c)))
                [] OTHER -> c[Len(c)]
ISel(q) == LET hits == SelectSeq(PosSeq, LAMBDA j : IHit(q, j)) IN [k \in 1..Len(hits) |-> [i |-> hits[k], rel |-> IRel(q, hits[k])]]
Idxs(sel) == [k \in 1..Len(sel) |-> sel[k].i]
ITagAny(sel, tg) == SelectSeq(Idxs(sel), LAMBDA i : ToSet(tg) \cap ToSet(Node(i).tags) # {})
ITagAll(sel, tg) == SelectSeq(Idxs(sel), LAMBDA i : ToSet(tg) \subseteq ToSet(Node(i).tags))
ICount(n, c) == IF c.kind = "int" THEN n = c.n ELSE n \in ToSet(c.lst)

(* MACHINE *)
MIsAll(q) == q.atoms = <<"*">>
MIsChildren(q) == Len(q.atoms) >= 2 /\ SubSeq(q.atoms, Len(q.atoms) - 1, Len(q.atoms)) = <<".", "*">>
MPrefix(q) == SubSeq(q.atoms, 1, Len(q.atoms) - 1)                       \* query[:-1], ends with the separator
LastDot(a) == IF "." \in ToSet(a) THEN CHOOSE k \in 1..Len(a) : a[k] = "." /\ \A m \in (k + 1)..Len(a) : a[m] # "." ELSE 0
MHit(q, j) == LET a == Node(j).atoms IN
              IF MIsAll(q) THEN TRUE ELSE IF MIsChildren(q) THEN StartsWith(a, MPrefix(q)) ELSE a = q.atoms
MRel(q, j) == LET a == Node(j).atoms IN
              IF MIsAll(q) THEN Cat(a)
              ELSE IF MIsChildren(q) THEN Cat(SubSeq(a, Len(MPrefix(q)) + 1, Len(a)))     \* name[len(query[:-1]):]
              ELSE Cat(SubSeq(a, LastDot(a) + 1, Len(a)))                                  \* name.split('.')[-1]
MSel(q) == LET hits == SelectSeq(PosSeq, LAMBDA j : MHit(q, j)) IN [k \in 1..Len(hits) |-> [i |-> hits[k], rel |-> MRel(q, hits[k])]]
\* `if nodes[n].tags and np.isin(tags, nodes[n].tags)`: an untagged node is skipped before the array is
\* looked at; for a tagged one the truth value of an array with several elements raises
MTag(sel, tg) == LET tagged == SelectSeq(Idxs(sel), LAMBDA i : Node(i).tags # <<>>) IN
                 IF Len(tg) >= 2 /\ tagged # <<>> THEN [raise |-> TRUE, sel |-> <<>>]
                 ELSE [raise |-> FALSE, sel |-> SelectSeq(tagged, LAMBDA i : tg[1] \in ToSet(Node(i).tags))]
\* request("?q", count): "Local nodes are not available" on an empty list; `if count:` is false for 0
MCount(n, c) == IF lst = <<>> THEN FALSE
                ELSE IF c.kind = "int" THEN (c.n = 0 \/ n = c.n) ELSE n \in ToSet(c.lst)

-----------------------------------------------------------------------------
Init == lst = <<>>
Next == Len(lst) < MaxNodes /\ \E k \in 1..Len(Menu) :
          /\ k \notin ToSet(lst)
          /\ Menu[k].atoms \notin {Node(j).atoms : j \in Pos}
          /\ lst' = Append(lst, k)
Spec == Init /\ [][Next]_vars

\* the selection itself (before tags and counts) agrees: prefix tests on the string with the separator
\* kept are the same as component tests
SelectionRefines == \A k \in 1..Len(Queries) : ISel(Queries[k]) = MSel(Queries[k])
\* named deviations of tags / count handling
TagDev(q, tg) == LET m == MTag(MSel(q), tg) IN
                 IF m.raise THEN {"tags_multi_raises"}
                 ELSE IF m.sel # ITagAny(ISel(q), tg) /\ m.sel # ITagAll(ISel(q), tg) THEN {"tags_other"} ELSE {}
CountDev(q, c) == IF ICount(Len(ISel(q)), c) = MCount(Len(MSel(q)), c) THEN {}
                  ELSE IF lst = <<>> THEN {"request_on_empty_list_raises"}
                  ELSE IF c.kind = "int" /\ c.n = 0 THEN {"count_zero_unchecked"} ELSE {"count_other"}
Explained == \A k \in 1..Len(Queries) :
               /\ \A t \in 1..Len(TagSels) : "tags_other" \notin TagDev(Queries[k], TagSels[t])
               /\ \A c \in 1..Len(Counts) : "count_other" \notin CountDev(Queries[k], Counts[c])

Record ==
  [nodes |-> [j \in Pos |-> [name |-> Cat(Node(j).atoms), tags |-> Node(j).tags, val |-> Node(j).val]],
   qs |-> [k \in 1..Len(Queries) |->
            LET q == Queries[k] IN
            [q |-> Cat(q.atoms), kind |-> q.kind, isel |-> ISel(q), msel |-> MSel(q),
             tg |-> [t \in 1..Len(TagSels) |->
                      [tags |-> TagSels[t], any |-> ITagAny(ISel(q), TagSels[t]), all |-> ITagAll(ISel(q), TagSels[t]),
                       mach |-> MTag(MSel(q), TagSels[t]), dev |-> TagDev(q, TagSels[t])]],
             cnt |-> [c \in 1..Len(Counts) |->
                       [count |-> Counts[c], ideal |-> ICount(Len(ISel(q)), Counts[c]),
                        mach |-> MCount(Len(MSel(q)), Counts[c]), dev |-> CountDev(q, Counts[c])]]]]]

EmitInv == Emit => PrintT(ToJson(Record))
=============================================================================
