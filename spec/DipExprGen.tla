---------------------------- MODULE DipExprGen ----------------------------
(***************************************************************************)
(* C18 at design level and the scenario source for replay.                 *)
(*                                                                         *)
(* Every reachable state is one token string of one expression family      *)
(* (Mode = "num" | "log" | "tmpl") over one atom set (ci).  For each state *)
(* the invariant Refines                                                   *)
(*   - checks the machine against the ideal:                               *)
(*       the generic-solver instance builds the ideal's tree for every     *)
(*       string of the documented grammar (tree level), and every          *)
(*       difference between the machine's and the ideal's truth value /    *)
(*       segmentation carries a NAMED deviation (value level);             *)
(*   - prints one JSON record (scenario + the ideal's expected observation *)
(*     + the machine's prediction + feature tags) for the replay harness.  *)
(*                                                                         *)
(* Prune = TRUE : only viable prefixes of the grammar are extended (deep,  *)
(*                well-formed expressions up to MaxLen tokens)             *)
(* Prune = FALSE: every string over the alphabet up to MaxLen tokens       *)
(* Source = "file": the strings of the JSON file named by env DIPEXPR_IN   *)
(*                  (deeper expressions drawn by the harness; TLC          *)
(*                  classifies and evaluates them - it stays the oracle)   *)
(***************************************************************************)
EXTENDS DipExpr, Json, IOUtils, TLC

CONSTANTS Mode, MaxLen, Prune, Source, Emit, Cfgs,
          EmitMax      \* unpruned enumeration: records are printed for strings up to this length only

FileItems == IF Source = "file" THEN JsonDeserialize(IOEnv.DIPEXPR_IN) ELSE <<>>
NFile == Len(FileItems)
Stride == 64

VARIABLES s, ci, idx

NumAlphabet(i) == NumCfg(i).atoms \cup NumOps \cup NumOpen \cup {")", ","}
LogAlphabet(i) == LogCfg(i).atoms \cup CmpOps \cup {"&&", "||", "~", "(", ")"}
TmplCfg(i) == CASE i = 3 -> {"T", "{", "}", "Rs", "Rv", "S13", "S1", "F.2f"}     \* (pruned runs: several references
                [] i = 4 -> {"T", "{", "}", "Rm", "S01", "S1", "F.2f"}          \*  to one node in one template)
                [] i = 1 -> {"T", "{", "}", "Ra", "Rs", "S13", "F.2f", "F>8s"}
                [] i = 2 -> {"T", "{", "}", "Rv", "Rb", "S1", "F03d", "F.3g"}
NTmplCfg == 4
Alphabet(i) == CASE Mode = "num" -> NumAlphabet(i) [] Mode = "log" -> LogAlphabet(i) [] Mode = "tmpl" -> TmplCfg(i)
EnvOf(i) == CASE Mode = "num" -> NumCfg(i).env [] Mode = "log" -> LogCfg(i).env [] OTHER -> "plain"

(***************************************************************************)
(* Viable prefixes                                                         *)
(***************************************************************************)
Cost(f) == IF f = "w2" THEN 3 ELSE 1
RECURSIVE SumCost(_)
SumCost(st) == IF st = <<>> THEN 0 ELSE Cost(Head(st)) + SumCost(Tail(st))
Top(st) == st[Len(st)]
Pop(st) == SubSeq(st, 1, Len(st) - 1)
Sc(ok, ex, st) == [ok |-> ok, ex |-> ex, st |-> st]
RECURSIVE NScan(_, _, _, _)
NScan(x, i, ex, st) ==
  IF i > Len(x) THEN Sc(TRUE, ex, st)
  ELSE LET t == x[i] IN
  IF ex = "opd" THEN
       IF IsNumTok(t) THEN NScan(x, i + 1, "opr", st)
       ELSE IF t \in {"(", "f1("} THEN NScan(x, i + 1, "opd", Append(st, "p"))
       ELSE IF t = "pow(" THEN NScan(x, i + 1, "opd", Append(st, "w2"))
       ELSE Sc(FALSE, ex, st)
  ELSE IF t \in NumOps THEN NScan(x, i + 1, "opd", st)
       ELSE IF t = ")" /\ st # <<>> /\ Top(st) \in {"p", "w1"} THEN NScan(x, i + 1, "opr", Pop(st))
       ELSE IF t = "," /\ st # <<>> /\ Top(st) = "w2" THEN NScan(x, i + 1, "opd", Append(Pop(st), "w1"))
       ELSE Sc(FALSE, ex, st)
NViable(x) == LET r == NScan(x, 1, "opd", <<>>) IN
              r.ok /\ Len(x) + (IF r.ex = "opd" THEN 1 ELSE 0) + SumCost(r.st) <= MaxLen

\* logical: ex = "opd" | "opdn" (operand or ~) | "opr"; plus local typing rules that discard most
\* ill-typed strings early (a number needs a comparison next to it, booleans have no ordering)
RECURSIVE LScan(_, _, _, _)
LScan(x, i, ex, st) ==
  IF i > Len(x) THEN Sc(TRUE, ex, st)
  ELSE LET t == x[i]
           prev == IF i > 1 THEN x[i - 1] ELSE ""
           prev2 == IF i > 2 THEN x[i - 2] ELSE ""
           leftnum == IsNumTok(prev) /\ prev2 \notin CmpOps      \* a number still waiting for its comparison
       IN
  IF ex \in {"opd", "opdn"} THEN
       IF t \in AllAtomToks THEN
            (IF IsBoolTok(t) /\ prev \in {"<", ">", "<=", ">="} THEN Sc(FALSE, ex, st) ELSE LScan(x, i + 1, "opr", st))
       ELSE IF t = "(" THEN LScan(x, i + 1, "opdn", Append(st, "p"))
       ELSE IF t = "~" /\ ex = "opdn" THEN LScan(x, i + 1, "opd", st)
       ELSE Sc(FALSE, ex, st)
  ELSE IF t \in CmpOps THEN
            (IF IsBoolTok(prev) /\ t \in {"<", ">", "<=", ">="} THEN Sc(FALSE, ex, st) ELSE LScan(x, i + 1, "opd", st))
       ELSE IF t \in {"&&", "||"} THEN (IF leftnum THEN Sc(FALSE, ex, st) ELSE LScan(x, i + 1, "opdn", st))
       ELSE IF t = ")" /\ st # <<>> THEN (IF leftnum /\ prev2 # "(" THEN Sc(FALSE, ex, st) ELSE LScan(x, i + 1, "opr", Pop(st)))
       ELSE Sc(FALSE, ex, st)
LViable(x) == LET r == LScan(x, 1, "opdn", <<>>) IN
              r.ok /\ Len(x) + (IF r.ex = "opr" THEN 0 ELSE 1) + SumCost(r.st) <= MaxLen

\* templates made of whole segments only: plain text "T" or a reference group { R [S] [F] }
\* state: "free" | "brace" | "ref" | "slice" | "fmt"
RECURSIVE TScan(_, _, _)
TScan(x, i, st) ==
  IF i > Len(x) THEN [ok |-> TRUE, st |-> st]
  ELSE LET t == x[i] IN
  CASE st = "free"  -> IF t = "T" THEN TScan(x, i + 1, "free") ELSE IF t = "{" THEN TScan(x, i + 1, "brace")
                       ELSE [ok |-> FALSE, st |-> st]
    [] st = "brace" -> IF t \in TRefs THEN TScan(x, i + 1, "ref") ELSE [ok |-> FALSE, st |-> st]
    [] st = "ref"   -> IF t \in TSlices THEN TScan(x, i + 1, "slice") ELSE IF t \in TFmts THEN TScan(x, i + 1, "fmt")
                       ELSE IF t = "}" THEN TScan(x, i + 1, "free") ELSE [ok |-> FALSE, st |-> st]
    [] st = "slice" -> IF t \in TFmts THEN TScan(x, i + 1, "fmt") ELSE IF t = "}" THEN TScan(x, i + 1, "free")
                       ELSE [ok |-> FALSE, st |-> st]
    [] st = "fmt"   -> IF t = "}" THEN TScan(x, i + 1, "free") ELSE [ok |-> FALSE, st |-> st]
TViable(x) == LET r == TScan(x, 1, "free") IN
              r.ok /\ Len(x) + (CASE r.st = "free" -> 0 [] r.st = "brace" -> 2 [] OTHER -> 1) <= MaxLen
              \* no two plain-text tokens in a row (they add nothing)
              /\ \A i \in 1..(Len(x) - 1) : ~(x[i] = "T" /\ x[i + 1] = "T")
TComplete == TScan(s, 1, "free").ok /\ TScan(s, 1, "free").st = "free"
Viable(x) == IF ~Prune THEN TRUE
             ELSE CASE Mode = "num" -> NViable(x) [] Mode = "log" -> LViable(x) [] OTHER -> TViable(x)

(***************************************************************************)
(* State space                                                             *)
(***************************************************************************)
Init == IF Source = "enum" THEN s = <<>> /\ ci \in Cfgs /\ idx = 0
        ELSE /\ idx \in 1..(IF NFile < Stride THEN NFile ELSE Stride)
             /\ s = FileItems[idx].s /\ ci = FileItems[idx].ci
Next == IF Source = "enum"
        THEN /\ Len(s) < MaxLen
             /\ \E t \in Alphabet(ci) : Viable(Append(s, t)) /\ s' = Append(s, t)
             /\ UNCHANGED <<ci, idx>>
        ELSE /\ idx + Stride <= NFile /\ idx' = idx + Stride
             /\ s' = FileItems[idx'].s /\ ci' = FileItems[idx'].ci

(***************************************************************************)
(* Records                                                                 *)
(***************************************************************************)
Out(v) == IF v.st = "ok" THEN (IF v.isq THEN [k |-> "q", q |-> v.q] ELSE [k |-> "t", t |-> v.t])
          ELSE IF v.st = "mismatch" \/ (v.st = "mismatch_inv" /\ "inverse_dimension_operands" \notin OpenDevs)
               THEN [k |-> "raise"]       \* (8b695be: sums across inverse dimensions are refused)
          ELSE [k |-> "skip"]
Raise == [k |-> "raise"]
BaseUnits == <<"m", "s", "g", "rad">>
\* a unit of another dimension than dim - and not of the inverse dimension either, between which
\* the units module converts (C04): one base dimension that dim does not contain
WrongDim(dim) == IF dim[1] = 0 THEN <<1, 0, 0, 0, 0>> ELSE IF dim[2] = 0 THEN <<0, 1, 0, 0, 0>>
                 ELSE IF dim[3] = 0 THEN <<0, 0, 1, 0, 0>> ELSE <<dim[1] + 1, 0, 0, 0, 0>>
WrongUnits(dim) == LET w == WrongDim(dim) IN
                   <<IF w[1] # 0 THEN "m" ELSE "", IF w[2] # 0 THEN "s" ELSE "", IF w[3] # 0 THEN "g" ELSE "", "">>
Req(us, dim, out) == [us |-> us, dim |-> dim, out |-> out, sc |-> ReqScale(us, dim)]
NumReqs(v, env) ==
  IF v.dim = NoDim THEN << Req(<<"", "", "", "">>, NoDim, Out(v)), Req(WrongUnits(NoDim), WrongDim(NoDim), Raise) >>
  ELSE << Req(BaseUnits, v.dim, Out(VIn(v, BaseUnits))),
          Req(<<"cm", "ms", "kg", "mrad">>, v.dim, Out(VIn(v, <<"cm", "ms", "kg", "mrad">>))),
          Req(<<"km", "s", "kg", "rad">>, v.dim, Out(VIn(v, <<"km", "s", "kg", "rad">>))),
          Req(WrongUnits(v.dim), WrongDim(v.dim), Raise) >>
       \o (IF env = "custom" THEN << Req(<<"len", "s", "g", "rad">>, v.dim, Out(VIn(v, <<"len", "s", "g", "rad">>))) >> ELSE <<>>)
UsesCustom(x) == \E i \in 1..Len(x) : x[i] \in AllAtomToks /\ AT(x[i]).u = "len"

NumRecord ==
  LET cls == NClass(s)  it == NTree(s)  mt == NMach(s)
      v == IF it = NERR THEN VSt("unspec") ELSE NEval(it)
      mv == NEval(mt)
  IN [mode |-> "num", id |-> idx, ci |-> ci, env |-> NumCfg(ci).env, s |-> s, cls |-> cls, itree |-> it, mtree |-> mt,
      dim |-> v.dim,
      \* the class ("any" | "trig") from which the harness may pick the function of each f1( occurrence
      fcls |-> IF it # NERR THEN NFnClasses(it) ELSE NFnClasses(mt),
      reqs |-> IF cls = "value" THEN NumReqs(v, NumCfg(ci).env) ELSE <<>>,
      \* what the machine predicts for the value in base units (drift only)
      mach |-> IF mt = NERR THEN Raise
               ELSE IF ~NTreeOK(mt) THEN [k |-> "skip"]
               ELSE IF mv.st = "ok" THEN Out(VIn(mv, BaseUnits)) ELSE Out(mv),
      mdim |-> mv.dim,
      tags |-> (IF NumCfg(ci).env = "custom" THEN {"custom_unit_env"} ELSE {})
               \cup (IF UsesCustom(s) THEN {"custom_unit_operand"} ELSE {})
               \cup (IF v.st = "mismatch_inv" THEN {"inverse_dimension_operands"} ELSE {})]
NumRefines == NParse(s).ok => NMach(s) = NTree(s)

\* everything the record and the refinement check need, computed once per state
LogInfo ==
  LET pr == LParse(s)
      v == IF pr.ok THEN LEval(pr.tree) ELSE LSt("illtyped")
      cls == IF ~pr.ok THEN "ill"
             ELSE IF v.st = "illtyped" \/ v.ty # "bool" THEN "illtyped"
             ELSE IF v.st = "unspec" \/ DoubleNot(s) THEN "unspecified" ELSE "value"
      it == IF pr.ok THEN DropPar(pr.tree) ELSE NERR
      mt == LMach(s)
      mv == IF LTreeOK(mt) THEN MEval(mt) ELSE MErr({})
      mout == IF mt = NERR THEN "E" ELSE IF ~LTreeOK(mt) THEN "U" ELSE IF mv.num THEN "U" ELSE mv.r
  IN [ok |-> pr.ok, cls |-> cls, it |-> it, mt |-> mt, mout |-> mout,
      ideal |-> IF cls = "value" THEN (IF v.b THEN "T" ELSE "F") ELSE "",
      \* "result_bare_bool": the value of the whole expression is what == returned (numpy.bool_ / bool,
      \* not a BooleanType) - section 8 tracks the python type because the callers depend on it
      devs |-> (IF pr.ok THEN CmpFeatures(pr.tree, 1).f ELSE {}) \cup (IF LTreeOK(mt) THEN mv.dev ELSE {}),
      tags |-> (IF pr.ok THEN CmpFeatures(pr.tree, 1).f ELSE {}) \cup (IF LTreeOK(mt) THEN mv.dev ELSE {})
               \cup (IF LTreeOK(mt) /\ ~mv.num /\ mv.r # "E" /\ mv.pt \in {"np", "py"} THEN {"result_bare_bool"} ELSE {})
               \cup (IF LTreeOK(mt) /\ ~mv.num /\ mv.r # "E" /\ mv.pt = "pyne" THEN {"result_bare_bool_ne"} ELSE {})]
LogRecord(i) ==
  [mode |-> "log", id |-> idx, ci |-> ci, env |-> LogCfg(ci).env, s |-> s, cls |-> i.cls, itree |-> i.it, mtree |-> i.mt,
   ideal |-> i.ideal, mach |-> i.mout,
   tags |-> i.tags \cup (IF LogCfg(ci).env = "custom" THEN {"custom_unit_env"} ELSE {})
                   \cup (IF UsesCustom(s) THEN {"custom_unit_operand"} ELSE {})]
LogRefines(i) ==
  /\ (i.ok /\ ~DoubleNot(s)) => i.mt = i.it
  \* every difference in the truth value is explained by a named deviation of section 8
  /\ i.cls = "value" => (i.mout = i.ideal \/ i.mout = "U" \/ i.devs # {})

TmplRecord ==
  [mode |-> "tmpl", id |-> idx, ci |-> ci, env |-> "plain", s |-> s, cls |-> TClass(s), ideal |-> TIdeal(s), mach |-> TMach(s),
   tags |-> TFeatures(s)]
TmplRefines == TClass(s) = "value" => (TMach(s) = TIdeal(s) \/ TFeatures(s) # {})

\* (dstr / dadd: the decoy definition of the modified environment - another string, every element + dadd)
ExtraNodes == << [name |-> "s", ty |-> "str", str |-> "Hello", arr |-> <<>>, u |-> "", dstr |-> "World", dadd |-> 0],
                 [name |-> "v", ty |-> "float", str |-> "", dstr |-> "", dadd |-> 8, arr |-> <<Q(15, 1, -1), Q(25, 1, -1), Q(35, 1, -1)>>, u |-> "cm"],
                 [name |-> "mm", ty |-> "float2", str |-> "", u |-> "cm", dstr |-> "", dadd |-> 8,
                  arr |-> << <<Q(15, 1, -1), Q(25, 1, -1)>>, <<Q(35, 1, -1), Q(45, 1, -1)>> >>] >>
TmplToks == {"T", "{", "}"} \cup TRefs \cup TSlices \cup TFmts
Meta == [mode |-> "meta",
         atoms |-> [t \in AllAtomToks |-> AT(t)],
         nodes |-> NodeToks, cnodes |-> CustomNodeToks, extra |-> ExtraNodes,
         decoy |-> [t \in NodeToks \cup CustomNodeToks |-> DecoyN(t)],
         units |-> [u \in UnitSyms |-> UText(u)], custom |-> CustomUnits, customalt |-> CustomAlt,
         tplain |-> [t \in TmplToks |-> TPlain(t)], fn1 |-> Fn1Table]

\* template strings in which a brace is followed by a reference are printed whatever their length
OpensRef == \E i \in 1..(Len(s) - 1) : s[i] = "{" /\ s[i + 1] \in TRefs
\* which strings are printed: every string up to EmitMax tokens when all strings are enumerated; in
\* the pruned (deep) enumeration only complete expressions of the grammar that are well typed
Printed(complete) == Emit /\ s # <<>> /\ (Source = "file" \/ (IF Prune THEN complete ELSE Len(s) <= EmitMax))
FirstCfg == CHOOSE c \in Cfgs : \A c2 \in Cfgs : c <= c2
Refines ==
  /\ (Emit /\ s = <<>> /\ Source = "enum" /\ ci = FirstCfg) => PrintT(ToJson(Meta))
  /\ s # <<>> =>
       CASE Mode = "num" -> /\ Printed(NParse(s).ok) => PrintT(ToJson(NumRecord))
                            /\ NumRefines
         [] Mode = "log" -> LET i == LogInfo IN
                            /\ Printed(i.ok /\ i.cls # "illtyped") => PrintT(ToJson(LogRecord(i)))
                            /\ LogRefines(i)
         [] Mode = "tmpl" -> /\ (Printed(TComplete) \/ (Emit /\ ~Prune /\ OpensRef)) => PrintT(ToJson(TmplRecord))
                             /\ TmplRefines
=============================================================================
