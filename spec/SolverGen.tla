----------------------------- MODULE SolverGen -----------------------------
(***************************************************************************)
(* C01 at design level, and the scenario source for replay.                *)
(*                                                                         *)
(* Every reachable state is one input string.  Refines compares the        *)
(* machine's outcome on a fresh instance with the ideal's:                 *)
(*    well-formed                         => same Polish tree              *)
(*    unbalanced / arity / missing operand => machine raises               *)
(* and, when Emit, prints one JSON record per string for the replay        *)
(* harness (input, class, ideal tree) - TLC is the only oracle.            *)
(*                                                                         *)
(* Source = "enum": all strings over Alphabet of length <= MaxLen.         *)
(* Source = "file": the strings of the JSON file named by env SOLVER_IN    *)
(*                  (deeper strings drawn by the harness from the grammar  *)
(*                  and their single-edit variants).                       *)
(***************************************************************************)
EXTENDS SolverIdeal, Json, IOUtils, TLC

CONSTANTS Alphabet, MaxLen, Emit, Source,
          KnownDevs     \* tags of the open known findings (known_findings.json): named deviations excluded from Refines

\* SolverMachine takes the same Atoms
M == INSTANCE SolverMachine WITH
        BadAtoms <- {}, Lenient <- ("logic_rhs_missing" \in KnownDevs), PyEq <- ("eq_nonatom_sides" \in KnownDevs),   \* AtomBase and/or short-circuit: open finding until fix 12876f2
        OpTable  <- {"**", "*", "/", "+", "-", "==", "!=", "<=", ">=", "<", ">", "!", "&&", "||",
                     "(", "f1(", "f2("},
        Steps    <- << [ops |-> {"(", "f1(", "f2("}, otype |-> "ARGS"],
                       [ops |-> {"+", "-"},          otype |-> "UNARY"],
                       [ops |-> {"**"},              otype |-> "BINARY"],
                       [ops |-> {"*", "/"},          otype |-> "BINARY"],
                       [ops |-> {"+", "-"},          otype |-> "BINARY"],
                       [ops |-> {"==", "!=", "<=", ">=", "<", ">"}, otype |-> "BINARY"],
                       [ops |-> {"!"},               otype |-> "UNARY"],
                       [ops |-> {"&&"},              otype |-> "BINARY"],
                       [ops |-> {"||"},              otype |-> "BINARY"] >>

FileStrings == IF Source = "file" THEN JsonDeserialize(IOEnv.SOLVER_IN) ELSE <<>>

VARIABLE s, idx

Stride == 64
NFile == Len(FileStrings)

Init == IF Source = "enum" THEN s = <<>> /\ idx = 0
        ELSE idx \in 1..(IF NFile < Stride THEN NFile ELSE Stride) /\ s = FileStrings[idx]
Next == IF Source = "enum"
        THEN /\ Len(s) < MaxLen /\ \E t \in Alphabet : s' = Append(s, t) /\ idx' = idx
        ELSE /\ idx + Stride <= NFile /\ idx' = idx + Stride /\ s' = FileStrings[idx']

Mach(x) == M!Outcome(M!SolveFresh(x))

Verdict(x) ==
  LET c == Class(x)  m == Mach(x)  i == Ideal(x) IN
  IF c = "wellformed" THEN m = i
  ELSE IF MustRaise(c) THEN m = M!MERR \/ (M!DevTags(m) \cap KnownDevs # {})
  ELSE TRUE

Record(x) == [id |-> idx, s |-> x, cls |-> Class(x), ideal |-> Ideal(x), mach |-> Mach(x), tags |-> M!DevTags(Mach(x))]

Refines == /\ Emit => PrintT(ToJson(Record(s)))
           /\ Verdict(s)
=============================================================================
