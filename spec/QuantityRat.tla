---------------------------- MODULE QuantityRat ----------------------------
(***************************************************************************)
(* Exact rationals <<num, den>> over TLC's 32-bit integers (den > 0,       *)
(* lowest terms), used by QuantityAlg / Magnitude / QuantityHeap.  TLC has *)
(* no reals: every number the specs compute themselves is one of these;    *)
(* everything else is emitted as a term the harness evaluates.             *)
(***************************************************************************)
EXTENDS Integers, Sequences

RAbsI(x) == IF x < 0 THEN -x ELSE x
RECURSIVE RGcd(_, _)
RGcd(a, b) == IF b = 0 THEN a ELSE RGcd(b, a % b)

R(n, d) == IF n = 0 THEN <<0, 1>>
           ELSE LET g == RGcd(RAbsI(n), RAbsI(d))
                    s == IF d < 0 THEN -1 ELSE 1
                IN <<(s * n) \div g, (s * d) \div g>>
RInt(n) == <<n, 1>>
RZero == <<0, 1>>
ROne == <<1, 1>>

RIsRat(x) == Len(x) = 2 /\ x[2] > 0
RAdd(x, y) == R(x[1] * y[2] + y[1] * x[2], x[2] * y[2])
RNeg(x) == <<-x[1], x[2]>>
RSub(x, y) == RAdd(x, RNeg(y))
RMul(x, y) == R(x[1] * y[1], x[2] * y[2])
RInv(x) == R(x[2], x[1])                         \* x # 0
RDiv(x, y) == RMul(x, RInv(y))                   \* y # 0
RAbs(x) == <<RAbsI(x[1]), x[2]>>
RIsZero(x) == x[1] = 0
RIsInt(x) == x[2] = 1
RSign(x) == IF x[1] > 0 THEN 1 ELSE IF x[1] < 0 THEN -1 ELSE 0
RLe(x, y) == x[1] * y[2] <= y[1] * x[2]
RLt(x, y) == x[1] * y[2] < y[1] * x[2]
REq(x, y) == x[1] * y[2] = y[1] * x[2]

RECURSIVE RPowNat(_, _)
RPowNat(x, k) == IF k = 0 THEN ROne ELSE RMul(x, RPowNat(x, k - 1))
\* integer power (x # 0 when k < 0)
RPowInt(x, k) == IF k >= 0 THEN RPowNat(x, k) ELSE RInv(RPowNat(x, -k))

RECURSIVE RSumSeq(_)
RSumSeq(s) == IF s = <<>> THEN RZero ELSE RAdd(Head(s), RSumSeq(Tail(s)))
=============================================================================
