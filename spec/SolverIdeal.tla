--------------------------- MODULE SolverIdeal ---------------------------
(***************************************************************************)
(* What property C01 says an expression over the default operator table   *)
(* means: the documented step table read as a stratified grammar          *)
(*                                                                         *)
(*   or -> and -> not -> cmp -> add -> mul -> pow -> una -> prim           *)
(*                                                                         *)
(* every level a left-associative chain, `!` applied once above the        *)
(* comparisons, sign chains folded by parity.  Nothing here refers to how  *)
(* the implementation does it.                                             *)
(*                                                                         *)
(* Inputs are sequences of TOKENS (strings).  Results are Polish-form      *)
(* trees: sequences of strings in which atoms have arity 0, "neg" "!"      *)
(* "f1" arity 1, binary operators and "f2" arity 2.                        *)
(***************************************************************************)
EXTENDS Naturals, Sequences, FiniteSets

CONSTANT Atoms            \* set of atom tokens, e.g. {"a","b"}

CmpOps  == {"==", "!=", "<=", ">=", "<", ">"}
MulOps  == {"*", "/"}
AddOps  == {"+", "-"}
BinOnly == CmpOps \cup MulOps \cup {"**", "&&", "||"}   \* never unary
OpenToks == {"(", "f1(", "f2("}
AllToks == Atoms \cup BinOnly \cup AddOps \cup {"!"} \cup OpenToks \cup {")", ","}

Fail == [ok |-> FALSE, tree |-> <<>>, rest |-> <<>>, u |-> FALSE]
Ok(t, r, u) == [ok |-> TRUE, tree |-> t, rest |-> r, u |-> u]

RECURSIVE POr(_), PAnd(_), PNot(_), PCmp(_), PAdd(_), PMul(_), PPow(_), PUna(_), PPrim(_)
RECURSIVE Chain(_, _, _, _), FoldSigns(_, _, _)

\* consume a chain of + and - ; op is the accumulated sign, n the number of signs consumed
FoldSigns(op, s, n) ==
  IF s # <<>> /\ Head(s) = "+" THEN FoldSigns(op, Tail(s), n + 1)
  ELSE IF s # <<>> /\ Head(s) = "-" THEN FoldSigns(IF op = "+" THEN "-" ELSE "+", Tail(s), n + 1)
  ELSE [op |-> op, rest |-> s, n |-> n]

LevelOps(level) ==
  CASE level = "or"  -> {"||"}
    [] level = "and" -> {"&&"}
    [] level = "cmp" -> CmpOps
    [] level = "add" -> AddOps
    [] level = "mul" -> MulOps
    [] level = "pow" -> {"**"}

Sub(level, s) ==
  CASE level = "or"  -> PAnd(s)
    [] level = "and" -> PNot(s)
    [] level = "cmp" -> PAdd(s)
    [] level = "add" -> PMul(s)
    [] level = "mul" -> PPow(s)
    [] level = "pow" -> PUna(s)

\* TRUE iff the primary at the front of s is directly followed by ** (s has no leading sign)
PowAfterPrim(s) == LET p == PPrim(s) IN p.ok /\ p.rest # <<>> /\ Head(p.rest) = "**"

\* left-associative chain of one documented step; acc is the tree so far
Chain(level, acc, s, u) ==
  IF s # <<>> /\ Head(s) \in LevelOps(level)
  THEN LET f == IF level = "add" THEN FoldSigns(Head(s), Tail(s), 0)
                ELSE [op |-> Head(s), rest |-> Tail(s), n |-> 0]
           r == Sub(level, f.rest)
           \* a sign chain folded into a binary +/- that stands directly in front of the base
           \* of ** : the two natural readings of the step table differ -> unspecified
           amb == level = "add" /\ f.n > 0 /\ PowAfterPrim(f.rest)
       IN  IF r.ok THEN Chain(level, <<f.op>> \o acc \o r.tree, r.rest, u \/ r.u \/ amb) ELSE Fail
  ELSE Ok(acc, s, u)

Level(level, s) == LET r == Sub(level, s) IN IF r.ok THEN Chain(level, r.tree, r.rest, r.u) ELSE Fail

POr(s)  == Level("or", s)
PAnd(s) == Level("and", s)
PNot(s) == IF s # <<>> /\ Head(s) = "!"
           THEN LET r == PCmp(Tail(s))
                IN IF r.ok THEN Ok(<<"!">> \o r.tree, r.rest,
                                   \* !!x : documented nowhere
                                   r.u \/ (Tail(s) # <<>> /\ Head(Tail(s)) = "!")) ELSE Fail
           ELSE PCmp(s)
PCmp(s) == Level("cmp", s)
PAdd(s) == Level("add", s)
PMul(s) == Level("mul", s)
PPow(s) == Level("pow", s)
PUna(s) == LET f == FoldSigns("+", s, 0)
               r == PPrim(f.rest)
           IN  IF ~r.ok THEN Fail
               ELSE IF f.op = "-" THEN Ok(<<"neg">> \o r.tree, r.rest, r.u) ELSE r
PPrim(s) ==
  IF s = <<>> THEN Fail
  ELSE IF Head(s) \in Atoms THEN Ok(<<Head(s)>>, Tail(s), FALSE)
  ELSE IF Head(s) = "(" THEN
       LET r == POr(Tail(s))
       IN IF r.ok /\ r.rest # <<>> /\ Head(r.rest) = ")" THEN Ok(r.tree, Tail(r.rest), r.u) ELSE Fail
  ELSE IF Head(s) = "f1(" THEN
       LET r == POr(Tail(s))
       IN IF r.ok /\ r.rest # <<>> /\ Head(r.rest) = ")" THEN Ok(<<"f1">> \o r.tree, Tail(r.rest), r.u) ELSE Fail
  ELSE IF Head(s) = "f2(" THEN
       LET r1 == POr(Tail(s))
       IN IF r1.ok /\ r1.rest # <<>> /\ Head(r1.rest) = ","
          THEN LET r2 == POr(Tail(r1.rest))
               IN IF r2.ok /\ r2.rest # <<>> /\ Head(r2.rest) = ")"
                  THEN Ok(<<"f2">> \o r1.tree \o r2.tree, Tail(r2.rest), r1.u \/ r2.u) ELSE Fail
          ELSE Fail
  ELSE Fail

ERR == <<"#err">>
IdealParse(s) == LET r == POr(s) IN IF r.ok /\ r.rest = <<>> THEN r ELSE Fail
Ideal(s)      == LET r == IdealParse(s) IN IF r.ok THEN r.tree ELSE ERR

(***************************************************************************)
(* Classification of strings the ideal rejects, for the three ill-formed   *)
(* classes the property lists.  Purely syntactic.                          *)
(***************************************************************************)
RECURSIVE DepthOK(_, _)
DepthOK(s, d) == IF s = <<>> THEN d = 0
                 ELSE IF Head(s) \in OpenToks THEN DepthOK(Tail(s), d + 1)
                 ELSE IF Head(s) = ")" THEN d > 0 /\ DepthOK(Tail(s), d - 1)
                 ELSE DepthOK(Tail(s), d)
Balanced(s) == DepthOK(s, 0)

\* number of top-level commas of the group opened at position i (balanced s)
RECURSIVE CommasFrom(_, _, _, _)
CommasFrom(s, i, d, n) == IF i > Len(s) THEN n
                          ELSE IF s[i] \in OpenToks THEN CommasFrom(s, i + 1, d + 1, n)
                          ELSE IF s[i] = ")" THEN (IF d = 1 THEN n ELSE CommasFrom(s, i + 1, d - 1, n))
                          ELSE IF s[i] = "," /\ d = 1 THEN CommasFrom(s, i + 1, d, n + 1)
                          ELSE CommasFrom(s, i + 1, d, n)
NArg(tok) == IF tok = "f2(" THEN 2 ELSE 1
ArityOK(s) == \A i \in 1..Len(s) : s[i] \in OpenToks => CommasFrom(s, i + 1, 1, 0) + 1 = NArg(s[i])
\* a comma outside every group is no argument separator at all
RECURSIVE StrayComma(_, _)
StrayComma(s, d) == IF s = <<>> THEN FALSE
                    ELSE IF Head(s) \in OpenToks THEN StrayComma(Tail(s), d + 1)
                    ELSE IF Head(s) = ")" THEN StrayComma(Tail(s), d - 1)
                    ELSE IF Head(s) = "," /\ d = 0 THEN TRUE
                    ELSE StrayComma(Tail(s), d)

OperandEnd(t)   == t \in Atoms \/ t = ")"
OperandStart(t) == t \in Atoms \/ t \in OpenToks \/ t \in AddOps \/ t = "!"
\* a binary operator with nothing that could be its operand on one side
MissingOperand(s) ==
  \E i \in 1..Len(s) :
     \/ /\ s[i] \in BinOnly
        /\ \/ i = 1 \/ i = Len(s)
           \/ ~OperandEnd(s[i-1])
           \/ ~OperandStart(s[i+1])
     \/ /\ s[i] \in AddOps
        /\ \/ i = Len(s)
           \/ s[i+1] \in {")", ","} \cup BinOnly

Class(s) ==
  LET r == IdealParse(s) IN
  IF r.ok THEN (IF r.u THEN "unspecified" ELSE "wellformed")
  ELSE IF ~Balanced(s) THEN "ill:unbalanced"
  ELSE IF StrayComma(s, 0) THEN "ill:other"
  ELSE IF ~ArityOK(s) THEN "ill:arity"
  ELSE IF MissingOperand(s) THEN "ill:missing_operand"
  ELSE "ill:other"

MustRaise(c) == c \in {"ill:unbalanced", "ill:arity", "ill:missing_operand"}
=============================================================================
