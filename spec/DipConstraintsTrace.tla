------------------------ MODULE DipConstraintsTrace ------------------------
(***************************************************************************)
(* C16, code -> spec.  verif/c16_tracer.py runs the repository's DIP tests *)
(* under a pytest plugin that wraps DIP.parse and records, for every parse *)
(* that RETURNS, the final environment projected to what DipConstraints    *)
(* talks about.  Per node:                                                 *)
(*   ty, nu        type keyword, unit of the definition                    *)
(*   declared      written without value                                   *)
(*   hasvalue      node.value is not None                                  *)
(*   val           the final value as a literal of DipConstraints          *)
(*                 (num with k = 0, str, bool, none, arr with its shape)   *)
(*                 or [t |-> "opaque"] when it cannot be written as one    *)
(*   dims          declared dimension bounds                               *)
(*   opts          the declared options as literals (value text + unit as  *)
(*                 written), [t |-> "opaque"] for one that is not a        *)
(*                 literal                                                 *)
(*   conds         the condition as [join, atoms] of DipConstraints, or    *)
(*                 [opaque |-> reason] for an expression outside the       *)
(*                 modelled fragment (references to other nodes, ...)      *)
(*   fmts          [pat, end, cls]: how Python's re relates the pattern    *)
(*                 to the final value (the table DipConstraints receives   *)
(*                 as a constant, restricted to this pair)                 *)
(*   u             a reason when the node cannot be represented at all     *)
(* The IDEAL operators of DipConstraints (IOpt, IAtom/ICmp, IFmtCls,       *)
(* InBounds, declared-needs-value) judge every node; an environment is     *)
(* "F" as soon as one node violates a declared constraint, "T" when every  *)
(* node satisfies all of them, "U" otherwise.                              *)
(***************************************************************************)
EXTENDS DipConstraints, IOUtils

Envs == JsonDeserialize(IOEnv.C16_TRACE)

\* a literal can be compared with a value of a node whose unit is nu
UnitOK(l, nu) == \/ l.u = "" \/ l.u = nu
                 \/ (nu \in DOMAIN UnitF /\ l.u \in DOMAIN UnitF /\ UnitDim[l.u] = UnitDim[nu])

TOpt(nu, v, o) ==
  IF o.t = "opaque" \/ o.t # v.t THEN "U"
  ELSE IF o.t = "num" /\ ~UnitOK(o, nu) THEN "U"
  ELSE IOpt(nu, v, o)
TOpts(nu, v, os) == IF os = <<>> THEN "T"
                    ELSE IF v.t \notin {"num", "str"} THEN "U"
                    ELSE OrAll3({TOpt(nu, v, os[i]) : i \in 1..Len(os)})

TAtom(nu, v, a) ==
  IF a.lit.t # v.t THEN "U"
  ELSE IF a.lit.t = "num" /\ ~UnitOK(a.lit, nu) THEN "U"
  ELSE IAtom(nu, v, a)
TCond(nu, v, c) ==
  IF c.opaque # "" THEN "U"
  ELSE LET rs == {TAtom(nu, v, c.atoms[i]) : i \in 1..Len(c.atoms)}
       IN IF c.join = "or" THEN OrAll3(rs) ELSE AndAll3(rs)

TFmt(v, f) == IF v.t # "str" \/ f.cls = "opaque" THEN "U" ELSE IFmtCls(f.cls, f.end)

\* a value with MORE dimensions than declared is not judged (the undeclared ones have no bounds)
TDims(v, dims) == IF dims = <<>> THEN "T"
                  ELSE IF v.t # "arr" \/ Len(v.shape) > Len(dims) THEN "U"
                  ELSE B3(InBounds(v.shape, dims))

HasConstraints(n) == n.opts # <<>> \/ n.conds # <<>> \/ n.fmts # <<>> \/ n.dims # <<>>

TNode(n) ==
  IF n.u # "" THEN "U"
  ELSE IF ~n.hasvalue THEN (IF n.declared THEN "F" ELSE "U")      \* declared nodes have a value
  ELSE IF n.val.t = "none" THEN (IF HasConstraints(n) THEN "U" ELSE "T")
  ELSE AndAll3({TOpts(n.nu, n.val, n.opts), TDims(n.val, n.dims)}
               \cup {TCond(n.nu, n.val, n.conds[i]) : i \in 1..Len(n.conds)}
               \cup {TFmt(n.val, n.fmts[i]) : i \in 1..Len(n.fmts)})

TEnv(e) == AndAll3({TNode(e.nodes[j]) : j \in 1..Len(e.nodes)})

\* feature words of a violating node, for the matcher of open findings
TTags(n) == IF TNode(n) # "F" THEN {}
            ELSE (IF n.ty = "int" /\ \E i \in 1..Len(n.conds) : n.conds[i].opaque = "" /\
                      \E j \in 1..Len(n.conds[i].atoms) :
                         LET l == n.conds[i].atoms[j].lit IN l.t = "num" /\ UnitOK(l, n.nu) /\ ~QIsInt(Base(l, n.nu))
                  THEN {"condition", "int_node", "fractional_literal"} ELSE {})

VARIABLE tid
TInit == tid = 1 /\ p = Nil /\ ph = 0 /\ lv = {}
TNext == tid < Len(Envs) /\ tid' = tid + 1 /\ UNCHANGED vars
Judge == (Len(Envs) >= tid) =>
           LET e == Envs[tid] IN
           PrintT(ToJson([id |-> e.id, verdict |-> TEnv(e),
                          nodes |-> [j \in 1..Len(e.nodes) |-> TNode(e.nodes[j])],
                          tags |-> UNION {TTags(e.nodes[j]) : j \in 1..Len(e.nodes)}]))
=============================================================================
