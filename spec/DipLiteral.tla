----------------------------- MODULE DipLiteral -----------------------------
(***************************************************************************)
(* The literal notations of DIP values (docs: data types, values) and what *)
(* each one denotes.  This table IS the specification of "the value        *)
(* literally written" of property C13: type class, precision, signedness,  *)
(* shape, elements (row-major) and unit.                                   *)
(*                                                                         *)
(* Numbers are exact: Q(n, d, e) = n/d * 10^e ; integers that do not fit   *)
(* TLC's 32 bits are given by their decimal digits I("...").               *)
(***************************************************************************)
EXTENDS Naturals, Sequences

Q(n, d, e) == [t |-> "q", n |-> n, neg |-> FALSE, d |-> d, e |-> e, s |-> "", b |-> FALSE]
QN(n, d, e) == [t |-> "q", n |-> n, neg |-> TRUE, d |-> d, e |-> e, s |-> "", b |-> FALSE]   \* -(n/d)*10^e
I(s)  == [t |-> "i", n |-> 0, neg |-> FALSE, d |-> 1, e |-> 0, s |-> s, b |-> FALSE]
S(s)  == [t |-> "s", n |-> 0, neg |-> FALSE, d |-> 1, e |-> 0, s |-> s, b |-> FALSE]
B(b)  == [t |-> "b", n |-> 0, neg |-> FALSE, d |-> 1, e |-> 0, s |-> "", b |-> b]
NONE  == [t |-> "none", n |-> 0, neg |-> FALSE, d |-> 1, e |-> 0, s |-> "", b |-> FALSE]

\* decl: type text with dimension as written; txt: the value as written (\n inside blocks);
\* cls/prec/uns/shape/vals/unit: what a reader of the parsed environment must see
L(decl, txt, unit, cls, prec, uns, shape, vals) ==
  [decl |-> decl, txt |-> txt, unit |-> unit, cls |-> cls, prec |-> prec, uns |-> uns, shape |-> shape, vals |-> vals]

Lits == <<
  L("bool", "true", "", "bool", 0, FALSE, <<>>, <<B(TRUE)>>),
  L("bool", "false", "", "bool", 0, FALSE, <<>>, <<B(FALSE)>>),
  L("int", "2023", "", "int", 32, FALSE, <<>>, <<Q(2023, 1, 0)>>),
  L("int", "-17", "", "int", 32, FALSE, <<>>, <<QN(17, 1, 0)>>),
  L("int", "0", "", "int", 32, FALSE, <<>>, <<Q(0, 1, 0)>>),
  L("int16", "-5", "", "int", 16, FALSE, <<>>, <<QN(5, 1, 0)>>),
  L("int32", "123456", "", "int", 32, FALSE, <<>>, <<Q(123456, 1, 0)>>),
  L("int64", "9007199254740993", "", "int", 64, FALSE, <<>>, <<I("9007199254740993")>>),
  L("uint16", "65535", "", "int", 16, TRUE, <<>>, <<Q(65535, 1, 0)>>),
  L("uint32", "7", "", "int", 32, TRUE, <<>>, <<Q(7, 1, 0)>>),
  L("uint64", "18446744073709551615", "", "int", 64, TRUE, <<>>, <<I("18446744073709551615")>>),
  L("int", "3", "m", "int", 32, FALSE, <<>>, <<Q(3, 1, 0)>>),
  L("float", "10", "", "float", 64, FALSE, <<>>, <<Q(10, 1, 0)>>),
  L("float", "23.3", "", "float", 64, FALSE, <<>>, <<Q(233, 10, 0)>>),
  L("float", "2.3e20", "", "float", 64, FALSE, <<>>, <<Q(23, 10, 20)>>),
  L("float", "-1.5E-3", "", "float", 64, FALSE, <<>>, <<QN(15, 10000, 0)>>),
  L("float", "1e+2", "", "float", 64, FALSE, <<>>, <<Q(100, 1, 0)>>),
  L("float", "0.0", "", "float", 64, FALSE, <<>>, <<Q(0, 1, 0)>>),
  L("float32", "0.5", "", "float", 32, FALSE, <<>>, <<Q(1, 2, 0)>>),
  L("float64", "-2.25", "", "float", 64, FALSE, <<>>, <<QN(9, 4, 0)>>),
  L("float128", "1.25", "", "float", 128, FALSE, <<>>, <<Q(5, 4, 0)>>),
  L("float", "70", "cm", "float", 64, FALSE, <<>>, <<Q(70, 1, 0)>>),
  L("float", "1.5", "km/s", "float", 64, FALSE, <<>>, <<Q(3, 2, 0)>>),
  L("str", "John", "", "str", 0, FALSE, <<>>, <<S("John")>>),
  L("str", "'New York'", "", "str", 0, FALSE, <<>>, <<S("New York")>>),
  L("str", "\"United Kingdoms\"", "", "str", 0, FALSE, <<>>, <<S("United Kingdoms")>>),
  L("int", "none", "", "int", 32, FALSE, <<>>, <<NONE>>),
  L("float", "none", "", "float", 64, FALSE, <<>>, <<NONE>>),
  L("str", "none", "", "str", 0, FALSE, <<>>, <<NONE>>),
  L("bool", "none", "", "bool", 0, FALSE, <<>>, <<NONE>>),
  L("bool[4]", "[true,false,false,true]", "", "bool", 0, FALSE, <<4>>, <<B(TRUE), B(FALSE), B(FALSE), B(TRUE)>>),
  L("int[:]", "[0,1,2,3,4,5,6]", "", "int", 32, FALSE, <<7>>, <<Q(0,1,0), Q(1,1,0), Q(2,1,0), Q(3,1,0), Q(4,1,0), Q(5,1,0), Q(6,1,0)>>),
  L("float[3:]", "[0,1.34,1.34e4]", "", "float", 64, FALSE, <<3>>, <<Q(0,1,0), Q(134,100,0), Q(13400,1,0)>>),
  L("str[3:4]", "[\"John\",\"Peter\",\"Simon\"]", "", "str", 0, FALSE, <<3>>, <<S("John"), S("Peter"), S("Simon")>>),
  L("bool[4]", "'[true, false, false, true]'", "", "bool", 0, FALSE, <<4>>, <<B(TRUE), B(FALSE), B(FALSE), B(TRUE)>>),
  L("int[2,3]", "[[0,1,2],[3,4,5]]", "", "int", 32, FALSE, <<2, 3>>, <<Q(0,1,0), Q(1,1,0), Q(2,1,0), Q(3,1,0), Q(4,1,0), Q(5,1,0)>>),
  L("float[2:,:2]", "[[25,50],[34.2,95.1],[1e3,1e4]]", "kg", "float", 64, FALSE, <<3, 2>>,
      <<Q(25,1,0), Q(50,1,0), Q(342,10,0), Q(951,10,0), Q(1000,1,0), Q(10000,1,0)>>),
  L("int16[1:3]", "[-1,2]", "m", "int", 16, FALSE, <<2>>, <<QN(1,1,0), Q(2,1,0)>>),
  L("int[2,2]", "\"\"\"\n[[0,1],\n [2,3]]\n\"\"\"", "km/s", "int", 32, FALSE, <<2, 2>>, <<Q(0,1,0), Q(1,1,0), Q(2,1,0), Q(3,1,0)>>),
  L("str", "\"\"\"\nLorem ipsum\ndolor sit\n\"\"\"", "", "str", 0, FALSE, <<>>, <<S("Lorem ipsum\ndolor sit")>>),
  L("str", "''", "", "str", 0, FALSE, <<>>, <<S("")>>),
  \* the precision suffix is information about the target type, the value stays the decimal number written
  L("float32", "0.3", "", "float", 32, FALSE, <<>>, <<Q(3, 10, 0)>>),
  L("float32", "1e-3", "", "float", 32, FALSE, <<>>, <<Q(1, 1000, 0)>>),
  L("float32[2]", "[0.1,2.5]", "", "float", 32, FALSE, <<2>>, <<Q(1, 10, 0), Q(5, 2, 0)>>),
  \* inside a block everything is text, also a line that starts with a hash sign
  L("str", "\"\"\"\nfirst line\n# not a comment\nlast line\n\"\"\"", "", "str", 0, FALSE, <<>>, <<S("first line\n# not a comment\nlast line")>>),
  \* arrays with exactly one element are still arrays
  L("int[:]", "[7]", "", "int", 32, FALSE, <<1>>, <<Q(7, 1, 0)>>),
  L("int[1,1]", "[[3]]", "", "int", 32, FALSE, <<1, 1>>, <<Q(3, 1, 0)>>),
  L("float[1]", "[2.5]", "m", "float", 64, FALSE, <<1>>, <<Q(5, 2, 0)>>),
  L("str[1]", "[\"solo\"]", "", "str", 0, FALSE, <<1>>, <<S("solo")>>),
  \* a backslash in a string is a backslash (no escape sequences are documented)
  L("str", "\"C:\\temp\\new_run\"", "", "str", 0, FALSE, <<>>, <<S("C:\\temp\\new_run")>>),
  L("str", "'a\\nb'", "", "str", 0, FALSE, <<>>, <<S("a\\nb")>>),
  \* a string is the characters written: a form feed is not a line break, neither inside quotes nor inside a block
  L("str", "\"page one\fpage two\"", "", "str", 0, FALSE, <<>>, <<S("page one\fpage two")>>),
  L("str", "\"\"\"\nfirst\fpage\nsecond page\n\"\"\"", "", "str", 0, FALSE, <<>>, <<S("first\fpage\nsecond page")>>)
>>

\* a table literal: header declarations and rows; it denotes one array node per column below the table's name
Tab(cols, rows) == [cols |-> cols, rows |-> rows]
Col(name, decl, unit, cls, prec, vals) == [name |-> name, decl |-> decl, unit |-> unit, cls |-> cls, prec |-> prec, vals |-> vals]
Tables == <<
  Tab(<<Col("s", "int", "", "int", 32, <<Q(0,1,0), Q(1,1,0), Q(2,1,0)>>),
        Col("t", "float", "s", "float", 64, <<Q(1,4,0), Q(3,2,0), Q(5,2,0)>>),
        Col("w", "str", "", "str", 0, <<S("x"), S("y"), S("z")>>)>>,
      <<"0 0.25 x", "1 1.5 y", "2 2.5 z">>),
  Tab(<<Col("on", "bool", "", "bool", 0, <<B(TRUE), B(FALSE)>>),
        Col("i", "float", "W/m2", "float", 64, <<Q(234,100,0), Q(94,10,0)>>)>>,
      <<"true 2.34", "false 9.4">>),
  \* text cells that look like numbers or keywords stay text, character by character
  Tab(<<Col("w", "str", "", "str", 0, <<S("1.10"), S("true"), S("1e3")>>),
        Col("k", "int", "", "int", 32, <<Q(1,1,0), Q(2,1,0), Q(3,1,0)>>)>>,
      <<"1.10 1", "true 2", "1e3 3">>),
  \* a table with a single row gives arrays of one element
  Tab(<<Col("k", "int", "", "int", 32, <<Q(5,1,0)>>),
        Col("w", "str", "", "str", 0, <<S("x")>>)>>,
      <<"5 x">>),
  \* a row is a row whatever its first cell starts with: `#` opens a comment in DIP lines, not inside a block
  Tab(<<Col("w", "str", "", "str", 0, <<S("#ff0000"), S("#tag"), S("x")>>),
        Col("k", "int", "", "int", 32, <<Q(1,1,0), Q(2,1,0), Q(3,1,0)>>)>>,
      <<"#ff0000 1", "#tag 2", "x 3">>)
>>
=============================================================================
