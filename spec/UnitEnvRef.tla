----------------------------- MODULE UnitEnvRef -----------------------------
(***************************************************************************)
(* Refinement mapping from UnitEnv.tla (transcription of the code; bound   *)
(* to the code by replay and by traces) to UnitEnvAbs.tla (set-level       *)
(* abstraction whose invariant Apalache proves inductive).  TLC checks     *)
(* AbsSpec on every behaviour it explores for C09; hist and dip are        *)
(* stuttering variables of the abstraction.                                *)
(***************************************************************************)
EXTENDS UnitEnv, Integers

DescrOf == UNION {{ul[j] : j \in 1..Len(ul)} : ul \in UnitLists}
DipSyms == UNION {{tx[j].sym : j \in 1..Len(tx)} : tx \in DipTexts} \ {""}
RefSyms == {d.sym : d \in DescrOf} \cup DipSyms
RefBase == DOMAIN BaseTable
RefTypes == {d.typ : d \in DescrOf} \ {""}
RefBaseTypes == ToSet(BaseTypes)
RefTypOf == [s \in RefSyms \cup RefBase |->
               IF \E d \in DescrOf : d.sym = s /\ d.typ # "" THEN (CHOOSE d \in DescrOf : d.sym = s /\ d.typ # "").typ ELSE "none"]
RefMaxId == 200

SymSet(seq) == {seq[j].sym : j \in 1..Len(seq)}
r_owner == [s \in RefSyms \cup RefBase |-> IF s \in DOMAIN table THEN table[s].owner ELSE -1]
r_towner == [t \in RefTypes \cup RefBaseTypes |->
               IF t \notin ToSet(types) THEN -1
               ELSE IF \E c \in scopes : t \in ToSet(c.new_types) THEN (CHOOSE c \in scopes : t \in ToSet(c.new_types)).id
               ELSE 0]
r_live == {c.id : c \in {x \in scopes : x.phase = "open"}}
r_reg == IF Registering = {} THEN 0 ELSE Running.id
r_units == [i \in 1..RefMaxId |-> IF \E c \in scopes : c.id = i THEN SymSet((CHOOSE c \in scopes : c.id = i).units) ELSE {}]
r_done == [i \in 1..RefMaxId |-> IF \E c \in scopes : c.id = i THEN ToSet((CHOOSE c \in scopes : c.id = i).new_units) ELSE {}]

Abs == INSTANCE UnitEnvAbs WITH Syms <- RefSyms, BaseSyms <- RefBase, Types <- RefTypes, BaseTypes <- RefBaseTypes,
                                TypOf <- RefTypOf, MaxId <- RefMaxId, UndoOnFail <- UndoOnFail,
                                owner <- r_owner, towner <- r_towner, live <- r_live, reg <- r_reg,
                                units <- r_units, done <- r_done, nextid <- nextid
AbsSpec == Abs!SpecT
AbsInv == Abs!IndInv
=============================================================================
