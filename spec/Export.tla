------------------------------- MODULE Export -------------------------------
(***************************************************************************)
(* C19 - exported configuration files carry the same values as the         *)
(* environment.                                                            *)
(*                                                                         *)
(* The specification models an ABSTRACT ENVIRONMENT (an ordered list of    *)
(* parameters: dotted path, data type, width, signedness, shape, elements, *)
(* unit, tags, constant flag) and, for each of the nine back-ends, the     *)
(* DOCUMENTED CONTRACT of the export: what a reader of that format must    *)
(* see - symbol, storage (object / macro / key / shell variable), declared *)
(* type class, shape, the element at every index (row major), the unit.    *)
(* No text generation is modelled.                                         *)
(*                                                                         *)
(* TLC enumerates environments x selections x back-ends x options inside   *)
(* the bounds given by the constants, checks the contract sanity lemmas    *)
(* (Lemmas) on every scenario and prints one JSON record per scenario with *)
(* the expected reader observation, the verdict class and the feature tags.*)
(* verif/c19.py renders the scenario to DIP text, parses and exports it    *)
(* with the real code and reads the result back with the format's own      *)
(* reader; the comparison with the record is the verdict.                  *)
(*                                                                         *)
(* Values that TLC cannot hold (64-bit integers, floats, strings with      *)
(* attributes) live in small pools; TLC works with pool indices and the    *)
(* attributes it needs (sign, number of bits, exactness in binary32, ...). *)
(***************************************************************************)
EXTENDS Integers, Sequences, FiniteSets, TLC, Json

CONSTANTS
  Family,      \* "types"  : one-parameter environments, every type x width x sign x shape x value pattern
               \* "select" : sub-lists of a fixed pool of parameters, every query / tag selection
               \* "history": every history of up to MaxCalls select()/parse() calls on ONE exporter object
               \* "chain"  : every sequence of MaxChain exports of ONE parsed environment through (different) back-ends
  Shapes,      \* set of shapes (sequences of extents) explored in family "types"
  LongShapes,  \* long one-dimensional arrays (one value pattern, default attributes)
  AltCalls,    \* family "history": besides every history of MaxCalls calls, the alternating ones select; parse; select; parse ... of AltCalls calls
  ModShapes,   \* shapes on which the way the value was given (defined once / modified later / declared then assigned) is varied
  SecShapes,   \* shapes on which the secondary attributes (path, keyword form, unit, tags, constant) are varied
  ArrStarts,   \* start positions of the value pattern used for arrays (scalars use every position)
  Steps,       \* strides of the value pattern used for arrays (0 = all elements equal)
  EnvSizes,    \* family "select": sizes of the environments (sub-lists of SelPool, in pool order)
  QuerySet,    \* family "select": queries explored (subset of Queries)
  TagSelSet,   \* family "select": tag selectors explored (subset of TagSels)
  MaxCalls,    \* family "history": number of calls of a history
  HistSelects, \* family "history": the select() calls of the alphabet, as <<query, tags>> pairs
  MaxChain,    \* family "chain": number of exports of a chain
  Backends     \* subset of AllBackends to explore

AllBackends == {"dip", "json", "yaml", "toml", "bash", "c", "cpp", "fortran", "rust"}
Langs   == {"c", "cpp", "fortran", "rust"}      \* typed, compiled
DataFmt == {"json", "yaml", "toml"}             \* loaded by a library
Renamers == Langs \cup {"bash"}                 \* back-ends that apply the documented renaming

ASSUME Backends \subseteq AllBackends

---------------------------------------------------------------------------
(* Value pools.  The harness renders `txt`; the attributes are what the    *)
(* contract needs to know about the value (the harness re-checks them      *)
(* against txt at start-up and refuses to run when one is wrong).          *)

\* sbits = bits of the magnitude in two's complement: bitlength(v) for v >= 0, bitlength(-v-1) for v < 0
\* mbits = bitlength(|v|): the bits of the digits as a literal without its sign
IntPool == <<
  [txt |-> "0",                    neg |-> FALSE, sbits |->  0, mbits |->  0],
  [txt |-> "7",                    neg |-> FALSE, sbits |->  3, mbits |->  3],
  [txt |-> "-5",                   neg |-> TRUE,  sbits |->  3, mbits |->  3],
  [txt |-> "123",                  neg |-> FALSE, sbits |->  7, mbits |->  7],
  [txt |-> "-32768",               neg |-> TRUE,  sbits |-> 15, mbits |-> 16],
  [txt |-> "32767",                neg |-> FALSE, sbits |-> 15, mbits |-> 15],
  [txt |-> "40000",                neg |-> FALSE, sbits |-> 16, mbits |-> 16],
  [txt |-> "65535",                neg |-> FALSE, sbits |-> 16, mbits |-> 16],
  [txt |-> "-2147483648",          neg |-> TRUE,  sbits |-> 31, mbits |-> 32],
  [txt |-> "2147483647",           neg |-> FALSE, sbits |-> 31, mbits |-> 31],
  [txt |-> "3000000000",           neg |-> FALSE, sbits |-> 32, mbits |-> 32],
  [txt |-> "4294967295",           neg |-> FALSE, sbits |-> 32, mbits |-> 32],
  [txt |-> "12345678901234",       neg |-> FALSE, sbits |-> 44, mbits |-> 44],
  [txt |-> "-9223372036854775808", neg |-> TRUE,  sbits |-> 63, mbits |-> 64],
  [txt |-> "9223372036854775807",  neg |-> FALSE, sbits |-> 63, mbits |-> 63],
  [txt |-> "18446744073709551615", neg |-> FALSE, sbits |-> 64, mbits |-> 64] >>

\* f32x = the double denoted by txt is exactly a binary32 number; f32r = it lies inside the binary32 range
FloatPool == <<
  [txt |-> "0.0",                     f32x |-> TRUE,  f32r |-> TRUE ],
  [txt |-> "0.5",                     f32x |-> TRUE,  f32r |-> TRUE ],
  [txt |-> "-3.5",                    f32x |-> TRUE,  f32r |-> TRUE ],
  [txt |-> "1.5",                     f32x |-> TRUE,  f32r |-> TRUE ],
  [txt |-> "0.1",                     f32x |-> FALSE, f32r |-> TRUE ],
  [txt |-> "2.5",                     f32x |-> TRUE,  f32r |-> TRUE ],
  [txt |-> "-0.0025",                 f32x |-> FALSE, f32r |-> TRUE ],
  [txt |-> "12345678.9",              f32x |-> FALSE, f32r |-> TRUE ],
  [txt |-> "1e-05",                   f32x |-> FALSE, f32r |-> TRUE ],
  [txt |-> "1e+22",                   f32x |-> FALSE, f32r |-> TRUE ],
  [txt |-> "1024.0",                  f32x |-> TRUE,  f32r |-> TRUE ],
  [txt |-> "1e+40",                   f32x |-> FALSE, f32r |-> FALSE],
  [txt |-> "1.7976931348623157e+308", f32x |-> FALSE, f32r |-> FALSE] >>

BoolPool == << [txt |-> "true", b |-> TRUE], [txt |-> "false", b |-> FALSE] >>

\* strings of verdict scenarios: letters, digits, blanks and _ - . ,   (quotes, $ ... are outside the claim)
StrPool == <<
  [txt |-> "ab",            len |-> 2,  blank |-> FALSE],
  [txt |-> "cd",            len |-> 2,  blank |-> FALSE],
  [txt |-> "xy",            len |-> 2,  blank |-> FALSE],
  [txt |-> "c d",           len |-> 3,  blank |-> TRUE ],
  [txt |-> "true",          len |-> 4,  blank |-> FALSE],
  [txt |-> "42",            len |-> 2,  blank |-> FALSE],
  [txt |-> "x_y-z.w",       len |-> 7,  blank |-> FALSE],
  [txt |-> "Hello World 2", len |-> 13, blank |-> TRUE ],
  \* long values: hyphenated words / double blanks every few characters, so that any re-formatting of a long line shows
  [txt |-> "visc-alpha beta-gamma rho-max k-eps x-y delta-t cfl-limit re-start ab-cd out-dir visc-alpha beta-gamma rho-max k-eps x-y delta-t cfl-limit re-start",
   len |-> 147, blank |-> TRUE ],
  [txt |-> "visc-alpha  k-eps  cfl-limit  out-dir  rho-max  delta-t  ab-cd  beta-gamma  x-y  re-start  visc-alpha  k-eps  cfl-limit  out-dir  rho-max  delta-t  ab-cd  beta-gamma  x-y  re-start  visc-alpha  k-eps  cfl-limit  out-dir  rho-max  delta-t  ab-cd  beta-gamma  x-y  re-start",
   len |-> 271, blank |-> TRUE ],
  \* commas inside a value are characters of the value, also where the line is long (any splitting at commas shows)
  [txt |-> "1,3-butadiene", len |-> 13, blank |-> FALSE],
  [txt |-> "n-butane,1,3-butadiene,iso-octane,2,2,4-trimethylpentane,cyclo-hexane,1,2-dichloroethane,m-xylene,2,3-dimethylbutane,tert-butanol,1,4-dioxane",
   len |-> 141, blank |-> FALSE] >>

ASSUME \A i \in 1..Len(StrPool) : Len(StrPool[i].txt) = StrPool[i].len

Pool(ty) == CASE ty = "int"   -> IntPool
              [] ty = "float" -> FloatPool
              [] ty = "bool"  -> BoolPool
              [] ty = "str"   -> StrPool

---------------------------------------------------------------------------
(* Data types of DIP: bool, str, (u)int16|32|64, float32|64|128.           *)

TV(ty, w, u) == [ty |-> ty, width |-> w, uns |-> u]
TypeVariants ==
  {TV("bool", 0, FALSE), TV("str", 0, FALSE)}
  \cup {TV("int", w, u)       : w \in {16, 32, 64}, u \in BOOLEAN}
  \cup {TV("float", w, FALSE) : w \in {32, 64, 128}}

\* a pool value is inside the range of the declared type
Fits(tv, i) ==
  CASE tv.ty = "int"   -> LET v == IntPool[i] IN
                          IF tv.uns THEN ~v.neg /\ v.sbits <= tv.width ELSE v.sbits <= tv.width - 1
    [] tv.ty = "float" -> (tv.width = 32) => FloatPool[i].f32r
    [] OTHER           -> TRUE

FitSeq(tv) == SelectSeq([i \in 1..Len(Pool(tv.ty)) |-> i], LAMBDA i : Fits(tv, i))

\* keyword written in the DIP text: the default width may be implicit ("int") or explicit ("int32")
Keyword(tv, form) ==
  CASE tv.ty = "int"   -> (IF tv.uns THEN "u" ELSE "") \o "int"
                          \o (IF form = "short" /\ tv.width = 32 THEN "" ELSE ToString(tv.width))
    [] tv.ty = "float" -> "float" \o (IF form = "short" /\ tv.width = 64 THEN "" ELSE ToString(tv.width))
    [] OTHER           -> tv.ty
HasDefaultWidth(tv) == (tv.ty = "int" /\ tv.width = 32) \/ (tv.ty = "float" /\ tv.width = 64)

---------------------------------------------------------------------------
(* Shapes and element order.                                               *)

Rank(shape)  == Len(shape)
RECURSIVE Prod(_)
Prod(q) == IF Len(q) = 0 THEN 1 ELSE q[1] * Prod(Tail(q))
Count(shape) == Prod(shape)
\* distance, in the written (ROW MAJOR) value, between neighbours along dimension d: the extents after d
RowStride(shape, d) == Prod(SubSeq(shape, d + 1, Len(shape)))
\* the same for a column-major reader (Fortran's reshape without order=): the extents before d
ColStride(shape, d) == Prod(SubSeq(shape, 1, d - 1))
RECURSIVE SumTo(_, _)
SumTo(f, n) == IF n = 0 THEN 0 ELSE f[n] + SumTo(f, n - 1)

\* index (0 based, as a sequence) of the k-th element of the value as written in the DIP text
Unflat(shape, k) == [d \in 1..Rank(shape) |-> ((k - 1) \div RowStride(shape, d)) % shape[d]]
RowPos(shape, idx) == 1 + SumTo([d \in 1..Rank(shape) |-> idx[d] * RowStride(shape, d)], Rank(shape))
ColPos(shape, idx) == 1 + SumTo([d \in 1..Rank(shape) |-> idx[d] * ColStride(shape, d)], Rank(shape))
MaxExtent(shape) == IF Rank(shape) = 0 THEN 1 ELSE CHOOSE n \in {shape[d] : d \in 1..Rank(shape)} : \A d \in 1..Rank(shape) : shape[d] <= n
IndexSet(shape) == { idx \in [1..Rank(shape) -> 0..(MaxExtent(shape) - 1)] : \A d \in 1..Rank(shape) : idx[d] < shape[d] }

\* value pattern: element k is the (start + step*(k-1))-th fitting pool value, cyclically
Elems(tv, shape, start, step) ==
  LET F == FitSeq(tv) IN [k \in 1..Count(shape) |-> F[((start - 1 + step * (k - 1)) % Len(F)) + 1]]

---------------------------------------------------------------------------
(* Names.  Paths are sequences of segments; the documented renaming is     *)
(* "upper case, separator . replaced by _".  Upper case of the (finite)    *)
(* segment vocabulary is a table.                                          *)

Upper == [a |-> "A", A |-> "A", grp |-> "GRP", b |-> "B", c |-> "C", sub |-> "SUB", d |-> "D",
          grp_b |-> "GRP_B", v |-> "V", Size2 |-> "SIZE2", zz |-> "ZZ", s |-> "S",
          box |-> "BOX", grid |-> "GRID", n |-> "N", m |-> "M",
          a_long_parameter_name_of_forty_characters |-> "A_LONG_PARAMETER_NAME_OF_FORTY_CHARACTERS"]
LongName == <<"a_long_parameter_name_of_forty_characters">>

RECURSIVE Join(_, _)
Join(segs, sep) == IF Len(segs) = 0 THEN "" ELSE IF Len(segs) = 1 THEN segs[1]
                   ELSE segs[1] \o sep \o Join(Tail(segs), sep)
UpperSegs(segs) == [i \in 1..Len(segs) |-> Upper[segs[i]]]
Dotted(segs) == Join(segs, ".")

\* symbol under which a reader of back-end be finds the parameter whose selected (relative) name is rel
Symbol(rel, be, rename) ==
  IF be \in Renamers /\ rename THEN Join(UpperSegs(rel), "_") ELSE Dotted(rel)

\* two symbols denote the same thing for the reader: Fortran identifiers are case-insensitive
SymKey(rel, be, rename) ==
  IF be = "fortran" THEN Join(UpperSegs(rel), IF rename THEN "_" ELSE ".") ELSE Symbol(rel, be, rename)

\* an identifier of the programming languages and of the shell cannot contain the separator
IsIdentifier(rel, be, rename) == (be \in Renamers) => (rename \/ Len(rel) = 1)

---------------------------------------------------------------------------
(* Parameters.                                                             *)

Param(path, tv, form, shape, elems, unit, tags, const) ==
  [path |-> path, ty |-> tv.ty, width |-> tv.width, uns |-> tv.uns, kw |-> Keyword(tv, form),
   shape |-> shape, elems |-> elems, unit |-> unit, tags |-> tags, const |-> const,
   def |-> "once", init |-> <<>>]

\* How the DIP text gives the node its value.  The environment - and therefore every export - knows only the node's
\* declared type and its FINAL value:
\*   "once"      name type = value
\*   "modified"  name type = init   ...   name = value      (init: other elements of the same type)
\*   "declared"  name type          ...   name = value
GivenAs(p, mode, init) == [p EXCEPT !.def = mode, !.init = init]
Once(p) == GivenAs(p, "once", <<>>)

TvOf(p) == TV(p.ty, p.width, p.uns)

\* family "types": one parameter; the secondary attributes (path, unit, keyword form, tags, constant)
\* vary only on the first value pattern
TypeParamOK(tv, shape, start, step, path, form, unit, tags, const, mode) ==
  /\ start <= Len(FitSeq(tv))
  /\ (Rank(shape) = 0) => step = 1
  /\ (Rank(shape) > 0 /\ shape \notin LongShapes) => start \in ArrStarts /\ step \in Steps
  /\ (form = "long") => HasDefaultWidth(tv)
  /\ (unit # "") => tv.ty \in {"int", "float"}
  /\ (const) => tags = {"t1"}
  /\ LET nsec == (IF path # <<"a">> THEN 1 ELSE 0) + (IF form = "long" THEN 1 ELSE 0)
                 + (IF unit # "" THEN 1 ELSE 0) + (IF tags # {} THEN 1 ELSE 0) IN
     /\ nsec <= 1                                   \* one secondary attribute at a time
     /\ nsec = 1 => (start = 1 /\ step = 1 /\ shape \in SecShapes)
     /\ mode # "once" => (nsec = 0 /\ shape \in ModShapes)      \* a constant node cannot be modified
     /\ shape \in LongShapes => (nsec = 0 /\ mode = "once" /\ start = 1 /\ step = 1)

\* family "select": a fixed pool of harmless parameters with different paths and tags
SelPool == <<
  Param(<<"a">>,               TV("int", 32, FALSE),   "short", <<>>,  <<2>>,    "",   {},           FALSE),
  Param(<<"grp", "b">>,        TV("int", 16, FALSE),   "short", <<>>,  <<3>>,    "",   {"t1"},       FALSE),
  Param(<<"grp", "c">>,        TV("float", 64, FALSE), "short", <<>>,  <<6>>,    "cm", {"t1", "t2"}, TRUE),
  Param(<<"grp", "sub", "d">>, TV("bool", 0, FALSE),   "short", <<>>,  <<1>>,    "",   {"t2"},       FALSE),
  Param(<<"grp_b">>,           TV("str", 0, FALSE),    "short", <<>>,  <<1>>,    "",   {},           FALSE),
  GivenAs(Param(<<"A">>,       TV("int", 64, TRUE),    "short", <<>>,  <<4>>,    "",   {"t2"},       FALSE), "modified", <<2>>),
  Param(<<"Size2", "v">>,      TV("int", 32, FALSE),   "short", <<2>>, <<2, 3>>, "cm", {"t1"},       FALSE) >>

Queries == { <<>>, <<"*">>, <<"grp", "*">>, <<"grp", "b">>, <<"grp", "sub", "*">>, <<"grp", "sub", "d">>,
             <<"zz", "*">>, <<"a">>, <<"grp">>, <<"Size2", "*">> }
TagSels == { {}, {"t1"}, {"t2"}, {"t3"}, {"t1", "t2"}, {"t1", "t3"} }
ASSUME QuerySet \subseteq Queries /\ TagSelSet \subseteq TagSels

---------------------------------------------------------------------------
(* Selection: ExportConfig.select(query, tags).  Documented behaviour:     *)
(*   "*"        every parameter, names unchanged                           *)
(*   "x.y.*"    the parameters below x.y, names relative to x.y            *)
(*   "x.y.z"    that parameter, named by its last segment                  *)
(*   tags       of those, the parameters carrying the tag                  *)
(* With two or more selector tags the documentation does not say whether   *)
(* any or all must be carried: decided only where both readings agree.     *)

IsPrefix(s, t) == Len(s) <= Len(t) /\ SubSeq(t, 1, Len(s)) = s
IsWild(q) == Len(q) > 0 /\ q[Len(q)] = "*"
Stem(q) == SubSeq(q, 1, Len(q) - 1)

QMatch(q, path) ==
  IF q = <<>> \/ q = <<"*">> THEN TRUE
  ELSE IF IsWild(q) THEN IsPrefix(Stem(q), path) /\ Len(path) > Len(Stem(q))
  ELSE path = q
RelName(q, path) ==
  IF q = <<>> \/ q = <<"*">> THEN path
  ELSE IF IsWild(q) THEN SubSeq(path, Len(Stem(q)) + 1, Len(path))
  ELSE <<path[Len(path)]>>

TMatchAny(ts, p) == ts = {} \/ (p.tags \cap ts # {})
TMatchAll(ts, p) == ts = {} \/ (ts \subseteq p.tags)
TagsDecided(env, q, ts) == \A i \in 1..Len(env) : QMatch(q, env[i].path) => (TMatchAny(ts, env[i]) = TMatchAll(ts, env[i]))

Selected(env, q, ts) == { i \in 1..Len(env) : QMatch(q, env[i].path) /\ TMatchAny(ts, env[i]) }

---------------------------------------------------------------------------
(* The contract of each back-end.                                          *)

\* how the symbol is stored
Store(be, isDefine) ==
  IF be \in {"c", "cpp"} THEN (IF isDefine THEN "macro" ELSE "object")
  ELSE IF be \in {"fortran", "rust"} THEN "object"
  ELSE IF be = "bash" THEN "shellvar"
  ELSE IF be = "dip" THEN "node" ELSE "key"

\* declared type class seen by the reader: kind, bits (0 = not observable / not applicable), sign ("na" likewise)
TClass(tv, be, store) ==
  LET sg == IF tv.ty = "int" THEN (IF tv.uns THEN "u" ELSE "s") ELSE "na"
      wb == IF tv.ty \in {"int", "float"} THEN tv.width ELSE 0 IN
  CASE store = "macro"        -> [kind |-> "macro", bits |-> 0, sgn |-> "na"]     \* a macro has no declared type
    [] be \in {"c", "cpp"}    -> [kind |-> tv.ty, bits |-> wb, sgn |-> sg]        \* float128 -> long double (16 bytes, x86-64)
    [] be = "rust"            -> [kind |-> tv.ty, bits |-> IF tv.ty = "float" /\ tv.width = 128 THEN 64 ELSE wb, sgn |-> sg]
                                                                                  \* documented: no f128 in Rust, exported as f64
    [] be = "fortran"         -> [kind |-> tv.ty, bits |-> wb, sgn |-> "na"]      \* Fortran integers carry no sign attribute
    [] be = "dip"             -> [kind |-> tv.ty, bits |-> wb, sgn |-> sg]
    [] be \in DataFmt         -> [kind |-> tv.ty, bits |-> 0, sgn |-> "na"]       \* JSON/YAML/TOML: the four value kinds only
    [] be = "bash"            -> [kind |-> "text", bits |-> 0, sgn |-> "na"]      \* shell variables are text

\* precision in which a float element is seen: the environment holds doubles; a 32-bit declaration rounds to binary32
\* a 128-bit declaration (long double, real(16)) may hold more digits than the environment has: it is compared after rounding
\* to binary64 (as = 128)
FloatAs(tv, be, store) ==
  IF store = "object" /\ tv.width = 32 THEN 32
  ELSE IF store = "object" /\ tv.width = 128 /\ be \in {"c", "cpp", "fortran"} THEN 128
  ELSE 64

\* one element as the reader must see it.  padlen: all elements of a Fortran character entity share one length, the
\* reader sees the text padded with blanks to the length of the longest element (0 = no padding)
ValueSeen(tv, i, be, store, padlen) ==
  CASE tv.ty = "bool"  -> IF be = "bash" THEN [t |-> "text", txt |-> IF BoolPool[i].b THEN "0" ELSE "-1"]   \* documented: 0 is true, -1 false
                          ELSE IF store = "macro" THEN [t |-> "int", txt |-> IF BoolPool[i].b THEN "1" ELSE "0"] \* C truth values
                          ELSE [t |-> "bool", txt |-> BoolPool[i].txt]
    [] tv.ty = "int"   -> [t |-> "int", txt |-> IntPool[i].txt]
    [] tv.ty = "float" -> [t |-> "float", txt |-> FloatPool[i].txt, as |-> FloatAs(tv, be, store)]
    [] tv.ty = "str"   -> [t |-> "str", txt |-> StrPool[i].txt, pad |-> padlen]

UnitSeen(p, be, units) ==
  IF be = "dip" THEN p.unit
  ELSE IF be \in DataFmt /\ units THEN p.unit
  ELSE ""                                                \* languages and the shell export bare values

MaxStrLen(p) == CHOOSE n \in {StrPool[p.elems[k]].len : k \in 1..Len(p.elems)} :
                   \A k \in 1..Len(p.elems) : StrPool[p.elems[k]].len <= n

Obs(p, rel, be, opt) ==
  LET isdef == Dotted(rel) \in opt.define
      store == Store(be, isdef)
      tv == TvOf(p)
      padlen == IF be = "fortran" /\ p.ty = "str" THEN MaxStrLen(p) ELSE 0 IN
  [ sym   |-> Symbol(rel, be, opt.rename),
    key   |-> SymKey(rel, be, opt.rename),
    rel   |-> Dotted(rel),
    store |-> store,
    tclass |-> TClass(tv, be, store),
    shape |-> p.shape,
    unit  |-> UnitSeen(p, be, opt.units),
    elems |-> [k \in 1..Count(p.shape) |-> [idx |-> Unflat(p.shape, k), v |-> ValueSeen(tv, p.elems[k], be, store, padlen)]] ]

---------------------------------------------------------------------------
(* Feature predicates of a parameter in a scenario (the vocabulary of the  *)
(* known-findings matcher).                                                *)

ElemSet(p) == {p.elems[k] : k \in 1..Len(p.elems)}
OrderSensitive(p) == Rank(p.shape) >= 2 /\
  \E idx \in IndexSet(p.shape) : p.elems[RowPos(p.shape, idx)] # p.elems[ColPos(p.shape, idx)]

Features(p, rel, be, opt, q, ts) ==
  {be, p.ty}
  \cup (IF Rank(p.shape) = 0 THEN {"scalar"} ELSE {"array", "array" \o ToString(Rank(p.shape)) \o "d"})
  \cup (IF p.ty \in {"int", "float"} THEN {"w" \o ToString(p.width)} ELSE {})
  \cup (IF p.uns THEN {"unsigned"} ELSE {})
  \cup (IF p.uns /\ \E i \in ElemSet(p) : IntPool[i].sbits = p.width THEN {"above_signed_range"} ELSE {})
  \cup (IF p.ty = "int" /\ \E i \in ElemSet(p) : IntPool[i].mbits > 31 THEN {"digits_beyond_int32"} ELSE {})
  \cup (IF p.ty = "float" /\ p.width > 32 THEN {"wide"} ELSE {})
  \cup (IF p.ty = "float" /\ \E i \in ElemSet(p) : ~FloatPool[i].f32x THEN {"not_f32_exact"} ELSE {})
  \cup (IF p.ty = "float" /\ \E i \in ElemSet(p) : ~FloatPool[i].f32r THEN {"beyond_f32_range"} ELSE {})
  \cup (IF p.ty = "str" /\ \E i \in ElemSet(p) : StrPool[i].blank THEN {"str_blank"} ELSE {})
  \cup (IF p.ty = "str" /\ \E i, j \in ElemSet(p) : StrPool[i].len # StrPool[j].len THEN {"str_unequal_len"} ELSE {})
  \cup (IF OrderSensitive(p) THEN {"order_sensitive"} ELSE {})
  \cup (IF p.def # "once" THEN {"assigned_later", p.def} ELSE {})
  \cup (IF Dotted(rel) \in opt.define THEN {"define"} ELSE {})
  \cup (IF Dotted(rel) \in opt.const THEN {"const"} ELSE {})
  \cup (IF ~opt.rename THEN {"rename_off"} ELSE {})
  \cup (IF ~opt.units THEN {"units_off"} ELSE {})
  \cup (IF p.unit # "" THEN {"has_unit"} ELSE {})
  \cup (IF q # <<>> THEN {"sel_query"} ELSE {})
  \cup (IF ts # {} THEN {"sel_tags"} ELSE {})
  \cup (IF Cardinality(ts) > 1 THEN {"multi_tag"} ELSE {})

---------------------------------------------------------------------------
(* Scenarios.                                                              *)

VARIABLES stage, env, pick, query, tsel, be, opt, calls

vars == <<stage, env, pick, query, tsel, be, opt, calls>>

NoOpt == [rename |-> TRUE, units |-> TRUE, define |-> {}, const |-> {}, bexport |-> TRUE]

Init == /\ stage = "env" /\ env = <<>> /\ pick = 0 /\ query = <<>> /\ tsel = {} /\ be = "" /\ opt = NoOpt /\ calls = <<>>

\* --- build the environment
AddTypeParam ==
  /\ Family = "types" /\ stage = "env" /\ env = <<>>
  /\ \E tv \in TypeVariants, shape \in Shapes \cup LongShapes, start \in 1..16, step \in Steps \cup {1},
        path \in {<<"a">>, <<"grp", "b">>, LongName}, form \in {"short", "long"}, unit \in {"", "cm"},
        tags \in {{}, {"t1"}}, const \in BOOLEAN, mode \in {"once", "modified", "declared"} :
       /\ TypeParamOK(tv, shape, start, step, path, form, unit, tags, const, mode)
       /\ env' = <<GivenAs(Param(path, tv, form, shape, Elems(tv, shape, start, step), unit, tags, const), mode,
                           IF mode = "modified" THEN Elems(tv, shape, start + 1, step) ELSE <<>>)>>
  /\ stage' = "sel" /\ UNCHANGED <<pick, query, tsel, be, opt, calls>>

AddSelParam ==
  /\ Family = "select" /\ stage = "env" /\ \E n \in EnvSizes : Len(env) < n
  /\ \E i \in (pick + 1)..Len(SelPool) : env' = Append(env, SelPool[i]) /\ pick' = i
  /\ UNCHANGED <<stage, query, tsel, be, opt, calls>>

CloseEnv ==
  /\ Family = "select" /\ stage = "env" /\ Len(env) \in EnvSizes
  /\ stage' = "sel" /\ UNCHANGED <<env, pick, query, tsel, be, opt, calls>>

\* --- choose the selection
ChooseSel ==
  /\ stage = "sel"
  /\ IF Family = "types"
     THEN query' \in {<<>>, <<"*">>} /\ tsel' \in {{}, {"t1"}} /\ (query' # <<>> \/ tsel' # {} => env[1].tags # {} /\ ~env[1].const)
     ELSE query' \in QuerySet /\ tsel' \in TagSelSet
  /\ stage' = "be" /\ UNCHANGED <<env, pick, be, opt, calls>>

\* --- choose the back-end and its options
SelNames == { Dotted(RelName(query, env[i].path)) : i \in Selected(env, query, tsel) }
ScalarSelNames == { Dotted(RelName(query, env[i].path)) : i \in {j \in Selected(env, query, tsel) : Rank(env[j].shape) = 0} }

\* the first selected name (in environment order), as a singleton, or nothing
FirstName ==
  LET S == Selected(env, query, tsel) IN
  IF S = {} THEN {} ELSE LET m == CHOOSE i \in S : \A j \in S : i <= j IN {Dotted(RelName(query, env[m].path))}

Options(b) ==
  { [rename |-> r, units |-> u, define |-> d, const |-> c, bexport |-> x] :
      r \in BOOLEAN, u \in BOOLEAN, d \in {{}, FirstName}, c \in {{}, FirstName}, x \in BOOLEAN }

OptionOK(b, o) ==
  /\ (~o.units) => b \in DataFmt                     \* units on/off is an option of JSON, YAML, TOML
  /\ (o.define # {}) => b \in {"c", "cpp"}           \* #define selection: C and C++
  /\ (o.const # {}) => b = "cpp" /\ o.define = {}    \* const selection: C++
  /\ (~o.bexport) => b = "bash"                      \* export prefix: Bash
  /\ (Family = "types") => (o.rename \/ (b \in Renamers /\ env[1].path = <<"a">>  /\ Rank(env[1].shape) = 0 /\ o.define = {} /\ o.const = {}))
  /\ (Family = "types" /\ ~o.units) => env[1].unit # ""
  /\ (Family = "types" /\ ~o.bexport) => env[1].path = <<"a">>
  /\ (Family = "history") => o.rename = opt.rename   \* rename is fixed when the exporter object is made
  /\ (Family = "select") => (o.units /\ (~o.bexport => o.rename) /\ (~o.rename => b \in Renamers \cup {"json"}))

ChooseBackend ==
  /\ stage = "be"
  /\ \E b \in Backends : \E o \in Options(b) : OptionOK(b, o) /\ be' = b /\ opt' = o
  /\ stage' = "done" /\ UNCHANGED <<env, pick, query, tsel, calls>>


---------------------------------------------------------------------------
(* Expected observation, verdict class, lemmas, record.                    *)

\* (TLC re-evaluates a definition at every use: the selection is bound once by LET and handed on as an argument)
SelSeq == LET S == Selected(env, query, tsel) IN SelectSeq([i \in 1..Len(env) |-> i], LAMBDA i : i \in S)

Expect == LET ss == SelSeq IN
          [k \in 1..Len(ss) |->
             LET p == env[ss[k]]  rel == RelName(query, p.path) IN
             [param |-> ss[k], feat |-> Features(p, rel, be, opt, query, tsel)] @@ Obs(p, rel, be, opt)]

\* parameters that must NOT be visible to the reader, under the name they would have had
\* ("" for selected ones and for names that a selected parameter legitimately occupies)
SelKeys == { SymKey(RelName(query, env[i].path), be, opt.rename) : i \in Selected(env, query, tsel) }
Unselected == LET S == Selected(env, query, tsel)  keys == SelKeys IN
              [k \in 1..Len(env) |->
                 IF k \in S \/ SymKey(env[k].path, be, opt.rename) \in keys
                 THEN "" ELSE Symbol(env[k].path, be, opt.rename)]

\* inputs on which the documentation decides nothing: excluded from verdicts (counted as unspecified)
\* the k-th selected parameter, its relative name, symbol and key (cheap projections of Expect[k])
SelP(ss, k)   == env[ss[k]]
SelRel(ss, k) == RelName(query, SelP(ss, k).path)
SelSym(ss, k) == Symbol(SelRel(ss, k), be, opt.rename)
SelKey(ss, k) == SymKey(SelRel(ss, k), be, opt.rename)

Class ==
  LET ss == SelSeq  n == Len(ss)  keys == [k \in 1..n |-> SelKey(ss, k)] IN
  IF ~TagsDecided(env, query, tsel) THEN "unspecified:tags_any_or_all"
  ELSE IF \E k, l \in 1..n : k # l /\ keys[k] = keys[l] THEN "unspecified:name_collision"
  ELSE IF \E k \in 1..n : ~IsIdentifier(SelRel(ss, k), be, opt.rename) THEN "unspecified:not_an_identifier"
  ELSE IF \E k \in 1..n : Store(be, Dotted(SelRel(ss, k)) \in opt.define) = "macro" /\ Rank(SelP(ss, k).shape) > 0 THEN "unspecified:define_of_array"
  ELSE "wellformed"

\* -- contract sanity lemmas, checked by TLC on every scenario
LemmaNames ==            \* the name mapping is injective on the selected parameters of a well-formed scenario
  LET ss == SelSeq  E == Expect  n == Len(ss)
      syms == [k \in 1..n |-> SelSym(ss, k)]  keys == [k \in 1..n |-> SelKey(ss, k)] IN
  /\ \A k \in 1..n : LET e == E[k] IN e.sym = syms[k] /\ e.key = keys[k] /\ e.param = ss[k]
  /\ Class = "wellformed" => \A k, l \in 1..n : k # l => (syms[k] # syms[l] /\ keys[k] # keys[l])
LemmaShapes ==           \* the expected elements enumerate the index set of the shape exactly once, in row-major order
  LET E == Expect IN
  \A k \in 1..Len(E) :
    LET e == E[k]  p == env[e.param] IN
    /\ Len(e.elems) = Count(p.shape) /\ Len(p.elems) = Count(p.shape)
    /\ {e.elems[n].idx : n \in 1..Len(e.elems)} = IndexSet(p.shape)
    /\ \A n \in 1..Len(e.elems) : RowPos(p.shape, e.elems[n].idx) = n
    /\ \A n \in 1..Len(e.elems) : Fits(TvOf(p), p.elems[n])
    /\ {ColPos(p.shape, idx) : idx \in IndexSet(p.shape)} = 1..Count(p.shape)
LemmaSelection ==        \* selection is a filter: order preserving, sound and complete; relative names are suffixes
  LET ss == SelSeq  S == Selected(env, query, tsel)  U == Unselected IN
  /\ \A k \in 1..Len(ss) : k > 1 => ss[k - 1] < ss[k]
  /\ {ss[k] : k \in 1..Len(ss)} = S
  /\ \A i \in 1..Len(env) :
       (i \in S) <=> (QMatch(query, env[i].path) /\ TMatchAny(tsel, env[i]))
  /\ \A i \in S :
       LET rel == RelName(query, env[i].path) IN
       /\ Len(rel) >= 1
       /\ SubSeq(env[i].path, Len(env[i].path) - Len(rel) + 1, Len(env[i].path)) = rel
  /\ (query = <<>> /\ tsel = {}) => Len(ss) = Len(env)
  /\ Len(Expect) = Len(ss)
  /\ \A i \in 1..Len(env) : (i \in S) => U[i] = ""
  /\ \A i \in 1..Len(env) : LET u == U[i] IN \A k \in 1..Len(ss) : u # "" => u # SelSym(ss, k)
LemmaDefinition ==       \* what must be read back does not depend on how the DIP text gave the node its value
  LET ss == SelSeq IN
  \A k \in 1..Len(ss) :
    LET p == env[ss[k]]  rel == RelName(query, p.path) IN Obs(p, rel, be, opt) = Obs(Once(p), rel, be, opt)
LemmaEnv ==              \* paths of an environment are pairwise different
  \A i, j \in 1..Len(env) : i # j => env[i].path # env[j].path
\* the type class distinguishes the DIP types as far as the back-end is documented to
Merged(b, t1, t2) ==
  \/ b \in DataFmt \cup {"bash"}                                                       \* value kinds only
  \/ b = "fortran" /\ t1.ty = "int" /\ t1.width = t2.width                             \* no sign attribute
  \/ b = "rust" /\ t1.ty = "float" /\ {t1.width, t2.width} = {64, 128}                 \* documented f128 -> f64
LemmaTypes ==
  \A b \in AllBackends : \A t1, t2 \in TypeVariants :
    (t1 # t2 /\ t1.ty = t2.ty /\ ~Merged(b, t1, t2)) => TClass(t1, b, Store(b, FALSE)) # TClass(t2, b, Store(b, FALSE))
ASSUME LemmaTypes

\* features of the scenario as a whole (selection and options)
RecFeat ==
  {be}
  \cup (IF ~opt.rename THEN {"rename_off"} ELSE {})
  \cup (IF ~opt.units THEN {"units_off"} ELSE {})
  \cup (IF query # <<>> THEN {"sel_query"} ELSE {})
  \cup (IF tsel # {} THEN {"sel_tags"} ELSE {})
  \cup (IF Cardinality(tsel) > 1 THEN {"multi_tag"} ELSE {})

Record ==
  [ family |-> Family, be |-> be, class |-> Class, feat |-> RecFeat,
    env    |-> [i \in 1..Len(env) |->
                 [path |-> Dotted(env[i].path), kw |-> env[i].kw, ty |-> env[i].ty, shape |-> env[i].shape,
                  elems |-> [k \in 1..Len(env[i].elems) |-> Pool(env[i].ty)[env[i].elems[k]].txt],
                  unit |-> env[i].unit, tags |-> env[i].tags, const |-> env[i].const, def |-> env[i].def,
                  init |-> [k \in 1..Len(env[i].init) |-> Pool(env[i].ty)[env[i].init[k]].txt]]],
    query  |-> Dotted(query), tags |-> tsel,
    opt    |-> opt,
    expect |-> Expect,
    unselected |-> Unselected ]


---------------------------------------------------------------------------
(* Histories.  An exporter object is used more than once: select() and     *)
(* parse() are called in any order.  The ideal is a two-variable state     *)
(* machine: select(q, t) REPLACES the current selection (select() without  *)
(* arguments selects everything again), parse(options) exports exactly the *)
(* current selection under exactly these options - nothing else of the     *)
(* history matters.  Every parse of a history carries its own expected     *)
(* reader observation.                                                     *)

\* box.* and grid.* give the same relative names (n, m) to parameters of different type, width, sign and shape
HistEnv == <<SelPool[1], SelPool[2], SelPool[3], SelPool[4],
  Param(<<"box", "n">>,  TV("float", 32, FALSE), "short", <<>>,  <<2>>,     "cm", {}, FALSE),
  Param(<<"box", "m">>,  TV("int", 16, FALSE),   "short", <<>>,  <<3>>,     "",   {}, FALSE),
  Param(<<"grid", "n">>, TV("int", 64, TRUE),    "short", <<2>>, <<4, 13>>, "",   {}, FALSE),
  Param(<<"grid", "m">>, TV("str", 0, FALSE),    "short", <<>>,  <<1>>,     "",   {}, FALSE) >>

StartHistory ==
  /\ Family = "history" /\ stage = "env"
  /\ env' = HistEnv
  /\ \E b \in Backends, r \in BOOLEAN :
       /\ (~r) => b \in {"json", "c"}
       /\ be' = b /\ opt' = [NoOpt EXCEPT !.rename = r]
  /\ stage' = "hist" /\ UNCHANGED <<pick, query, tsel, calls>>

\* features of a parse call that come from the calls before it
EarlierParse(cs) == \E i \in 1..Len(cs) : cs[i].op = "parse"
SelectAfterParse(cs) == \E i, j \in 1..Len(cs) : i < j /\ cs[i].op = "parse" /\ cs[j].op = "select"
\* an earlier parse of the same selection (no select() in between) used the other units flag
UnitsFlipped(cs, u) ==
  \E i \in 1..Len(cs) : /\ cs[i].op = "parse" /\ cs[i].opt.units # u
                        /\ \A j \in (i + 1)..Len(cs) : cs[j].op # "select"
HistFeat(cs, o) ==
  (IF EarlierParse(cs) THEN {"reparse"} ELSE {})
  \cup (IF SelectAfterParse(cs) THEN {"reselect"} ELSE {})
  \cup (IF UnitsFlipped(cs, o.units) THEN {"units_flipped"} ELSE {})

ParseCall(cs) ==
  [ op |-> "parse", class |-> Class, feat |-> RecFeat, hfeat |-> HistFeat(cs, opt),
    query |-> Dotted(query), tags |-> tsel, opt |-> opt, expect |-> Expect, unselected |-> Unselected ]

Alternating(cs) == \A i \in 1..Len(cs) : cs[i].op = (IF i % 2 = 1 THEN "select" ELSE "parse")
\* a call may be appended: any call inside MaxCalls, beyond that only along select; parse; select; parse ...
MayCall(op, last) ==
  \/ Len(calls) < MaxCalls - last
  \/ Len(calls) < AltCalls - last /\ Alternating(calls) /\ op = (IF Len(calls) % 2 = 0 THEN "select" ELSE "parse")


HSelect ==
  /\ stage = "hist" /\ MayCall("select", 1)                \* a history ends with a parse
  /\ \E s \in HistSelects :
       /\ query' = s[1] /\ tsel' = s[2]
       /\ calls' = Append(calls, [op |-> "select", query |-> Dotted(s[1]), tags |-> s[2]])
  /\ UNCHANGED <<stage, env, pick, be, opt>>

HParse ==
  /\ stage = "hist" /\ MayCall("parse", 0)
  /\ \E o \in Options(be) : OptionOK(be, o) /\ opt' = o
  /\ UNCHANGED <<stage, env, pick, query, tsel, be>>
  /\ \E o \in {opt'} : calls' = Append(calls, [op |-> "parse", opt |-> o])

\* the expectation of a parse is a function of the last selection before it and of its own options
LastSelect(k) == IF \E i \in 1..(k - 1) : calls[i].op = "select"
                 THEN calls[CHOOSE i \in 1..(k - 1) : calls[i].op = "select" /\ \A j \in (i + 1)..(k - 1) : calls[j].op # "select"]
                 ELSE [op |-> "select", query |-> "", tags |-> {}]
\* the two-variable machine (query, tsel) holds exactly the last selection made on the object, opt the options of the call
LemmaHistory ==
  LET n == Len(calls) IN
  /\ Dotted(query) = LastSelect(n).query /\ tsel = LastSelect(n).tags
  /\ calls[n].op = "parse" => opt = calls[n].opt

\* one record per history: the calls, and what the reader must see after the LAST parse (every prefix that ends with a
\* parse is itself a history, so every parse of every history is judged)
HistoryRecord ==
  [ family |-> Family, be |-> be, rename |-> opt.rename,
    env    |-> Record.env,
    calls  |-> calls,
    last   |-> ParseCall(SubSeq(calls, 1, Len(calls) - 1)) ]


---------------------------------------------------------------------------
(* Chains.  One parsed environment is exported several times, each time    *)
(* through a new exporter object of some back-end.  In the ideal the       *)
(* environment is a constant: an export reads it and changes nothing, so   *)
(* every export of a chain must be read back exactly like a first export,  *)
(* and the environment itself is afterwards what the DIP text said.        *)

ChainEnv == <<
  Param(<<"a">>, TV("int", 32, FALSE),   "short", <<>>,     <<2>>,          "",   {},     FALSE),
  Param(<<"s">>, TV("str", 0, FALSE),    "short", <<3>>,    <<1, 4, 5>>,    "",   {"t1"}, FALSE),
  Param(<<"c">>, TV("float", 64, FALSE), "short", <<2, 2>>, <<2, 4, 6, 3>>, "cm", {},     FALSE),
  Param(<<"b">>, TV("bool", 0, FALSE),   "short", <<2>>,    <<1, 2>>,       "",   {},     TRUE),
  GivenAs(Param(<<"d">>, TV("int", 16, TRUE), "short", <<>>, <<7>>,         "",   {},     FALSE), "declared", <<>>) >>

StartChain ==
  /\ Family = "chain" /\ stage = "env"
  /\ env' = ChainEnv /\ stage' = "chain"
  /\ UNCHANGED <<pick, query, tsel, be, opt, calls>>

ChainFeat(cs) == {"chained"} \cup {"after_" \o cs[i].be : i \in 1..Len(cs)}

ExportCall(cs) ==
  [ op |-> "export", be |-> be, class |-> Class, feat |-> RecFeat, hfeat |-> IF Len(cs) = 0 THEN {} ELSE ChainFeat(cs),
    query |-> Dotted(query), tags |-> tsel, opt |-> opt, expect |-> Expect, unselected |-> Unselected ]

CExport ==
  /\ stage = "chain" /\ Len(calls) < MaxChain
  /\ \E b \in Backends : be' = b
  /\ UNCHANGED <<stage, env, pick, query, tsel, opt>>
  /\ \E b \in {be'} : calls' = Append(calls, [op |-> "export", be |-> b, opt |-> opt])

LemmaChain == env = ChainEnv /\ calls[Len(calls)].be = be      \* the environment is a constant of the chain

\* the calls of the chain, and what the reader must see in the LAST export
ChainRecord == [ family |-> Family, env |-> Record.env, calls |-> calls, last |-> ExportCall(SubSeq(calls, 1, Len(calls) - 1)) ]

Next == AddTypeParam \/ AddSelParam \/ CloseEnv \/ ChooseSel \/ ChooseBackend \/ StartHistory \/ HSelect \/ HParse
        \/ StartChain \/ CExport

Spec == Init /\ [][Next]_vars

Lemmas ==
  /\ (stage = "env" /\ env = <<>>) => PrintT(ToJson([pools |-> [int |-> IntPool, float |-> FloatPool, str |-> StrPool]]))
  /\ stage = "done" =>
       /\ LemmaEnv /\ LemmaNames /\ LemmaShapes /\ LemmaSelection /\ LemmaDefinition
       /\ PrintT(ToJson(Record))
  /\ (stage = "hist" /\ Len(calls) > 0 /\ calls[Len(calls)].op = "parse") =>
       /\ LemmaEnv /\ LemmaNames /\ LemmaShapes /\ LemmaSelection /\ LemmaHistory
       /\ PrintT(ToJson(HistoryRecord))
  /\ (stage = "chain" /\ Len(calls) > 0) =>
       /\ LemmaEnv /\ LemmaNames /\ LemmaShapes /\ LemmaSelection /\ LemmaChain
       /\ (Len(calls) = MaxChain) => PrintT(ToJson(ChainRecord))
=============================================================================
