----------------------------- MODULE UnitEnvAbs -----------------------------
(***************************************************************************)
(* Set-level abstraction of UnitEnv.tla (the repaired algorithm: a failing *)
(* constructor undoes what it registered; scopes are closed innermost      *)
(* first).  It forgets the order of registration inside one constructor,   *)
(* the prefix-clash computation (a constructor may fail its final check    *)
(* for any reason) and the API history, and keeps exactly what property    *)
(* C09 talks about: who owns which row of the process-wide unit table and  *)
(* of the conversion-type list.                                            *)
(*                                                                         *)
(* Two uses:                                                               *)
(*  - TLC checks that UnitEnv.tla (the transcription of the code, bound to *)
(*    the code by replay and by the test-suite traces) REFINES this module *)
(*    (UnitEnvRef.tla);                                                    *)
(*  - Apalache proves IndInv inductive (Init => IndInv, IndInv /\ Next =>  *)
(*    IndInv'), so Restored / BaseIntact / Usable hold in EVERY reachable  *)
(*    state of the abstraction - no bound on the number of API calls, on   *)
(*    nesting depth or on the length of a behaviour; only the universes    *)
(*    Syms / Types / 1..MaxId are fixed.                                   *)
(***************************************************************************)
EXTENDS Integers, FiniteSets

CONSTANTS
  \* @type: Set(Str);
  Syms,        \* symbols a caller may try to register (some of them exist in the base table)
  \* @type: Set(Str);
  BaseSyms,    \* symbols of the base table (subset of Syms is allowed: "already exists")
  \* @type: Set(Str);
  Types,       \* conversion types that units may bring
  \* @type: Set(Str);
  BaseTypes,   \* the built-in conversion types
  \* @type: Str -> Str;
  TypOf,       \* symbol -> its conversion type or "none"
  \* @type: Int;
  MaxId,
  \* @type: Bool;
  UndoOnFail   \* FALSE = the code before fix 0a93388: a failing constructor leaves behind what it registered

VARIABLES
  \* @type: Str -> Int;
  owner,       \* symbol -> 0 (base row) | -1 (absent) | id of the scope that registered it
  \* @type: Str -> Int;
  towner,      \* type -> 0 (built-in) | -1 (absent) | id of the scope that inserted it
  \* @type: Set(Int);
  live,        \* scopes whose constructor has returned and that are not closed
  \* @type: Int;
  reg,         \* the constructor in progress, or 0
  \* @type: Int -> Set(Str);
  units,       \* what each scope was asked to register
  \* @type: Int -> Set(Str);
  done,        \* what it has registered so far (new_units)
  \* @type: Int;
  nextid

vars == <<owner, towner, live, reg, units, done, nextid>>

Ids == 1..MaxId
AllSyms == Syms \cup BaseSyms
AllTypes == Types \cup BaseTypes

Init ==
  /\ owner = [s \in AllSyms |-> IF s \in BaseSyms THEN 0 ELSE -1]
  /\ towner = [t \in AllTypes |-> IF t \in BaseTypes THEN 0 ELSE -1]
  /\ live = {} /\ reg = 0 /\ nextid = 1
  /\ units = [c \in Ids |-> {}] /\ done = [c \in Ids |-> {}]

\* UnitEnvironment(U): the constructor starts
Begin(U) ==
  /\ reg = 0 /\ nextid \in Ids
  /\ reg' = nextid /\ nextid' = nextid + 1
  /\ units' = [units EXCEPT ![nextid] = U]
  /\ done' = [done EXCEPT ![nextid] = {}]
  /\ UNCHANGED <<owner, towner, live>>

\* everything the running constructor has inserted is taken out again; the object never reaches the caller
Undo ==
  /\ owner' = IF UndoOnFail THEN [s \in AllSyms |-> IF owner[s] = reg THEN -1 ELSE owner[s]] ELSE owner
  /\ towner' = IF UndoOnFail THEN [t \in AllTypes |-> IF towner[t] = reg THEN -1 ELSE towner[t]] ELSE towner
  /\ units' = [units EXCEPT ![reg] = {}] /\ done' = [done EXCEPT ![reg] = {}]
  /\ reg' = 0
  /\ UNCHANGED <<live, nextid>>

\* one iteration of the registration loop: the symbol exists -> raise (and undo); otherwise its type is inserted when
\* new, and then either the row is built or building it raises (malformed definition, interrupt)
Register(s) ==
  /\ reg # 0 /\ s \in units[reg] \ done[reg]
  /\ IF owner[s] # -1
     THEN Undo
     ELSE \/ /\ owner' = [owner EXCEPT ![s] = reg]
             /\ towner' = IF TypOf[s] \in AllTypes /\ towner[TypOf[s]] = -1 THEN [towner EXCEPT ![TypOf[s]] = reg] ELSE towner
             /\ done' = [done EXCEPT ![reg] = done[reg] \cup {s}]
             /\ UNCHANGED <<live, reg, units, nextid>>
          \/ Undo          \* the type had been inserted and remembered; Undo removes it with the rest

\* the final uniqueness check: passes (the scope is open) or raises (undo)
Finish ==
  /\ reg # 0 /\ done[reg] = units[reg]
  /\ \/ /\ live' = live \cup {reg} /\ reg' = 0 /\ UNCHANGED <<owner, towner, units, done, nextid>>
     \/ Undo

\* close() / __exit__ of the innermost open scope
Close(c) ==
  /\ reg = 0 /\ c \in live /\ \A d \in live : d <= c
  /\ owner' = [s \in AllSyms |-> IF owner[s] = c THEN -1 ELSE owner[s]]
  /\ towner' = [t \in AllTypes |-> IF towner[t] = c THEN -1 ELSE towner[t]]
  /\ live' = live \ {c}
  /\ units' = [units EXCEPT ![c] = {}] /\ done' = [done EXCEPT ![c] = {}]
  /\ UNCHANGED <<reg, nextid>>

Next == \/ \E U \in SUBSET Syms : Begin(U)
        \/ \E s \in Syms : Register(s)
        \/ Finish
        \/ \E c \in Ids : Close(c)

Spec == Init /\ [][Next]_vars

\* the same next-state relation with the witness of Begin read off the successor state (for TLC, which checks it as the
\* target of a refinement and should not enumerate SUBSET Syms on every transition)
NextT == \/ (reg = 0 /\ nextid \in Ids /\ units'[nextid] \in SUBSET Syms /\ Begin(units'[nextid]))
         \/ \E s \in Syms : Register(s)
         \/ Finish
         \/ \E c \in live : Close(c)
SpecT == Init /\ [][NextT]_vars

-----------------------------------------------------------------------------
\* C09 on the abstraction
NeededTypes == {TypOf[s] : s \in UNION {units[c] : c \in live}} \cap (AllTypes \ BaseTypes)
Restored == reg = 0 =>
              /\ {s \in AllSyms : owner[s] > 0} = UNION {units[c] : c \in live}
              /\ {t \in AllTypes : towner[t] > 0} = NeededTypes
BaseIntact == /\ \A s \in BaseSyms : owner[s] = 0
              /\ \A t \in BaseTypes : towner[t] = 0
Usable == \A c \in live : \A s \in units[c] : owner[s] = c /\ (TypOf[s] \in AllTypes => towner[TypOf[s]] >= 0)

\* the inductive invariant
Active == live \cup (IF reg = 0 THEN {} ELSE {reg})
TypeOK ==
  /\ owner \in [AllSyms -> -1..MaxId] /\ towner \in [AllTypes -> -1..MaxId]
  /\ live \in SUBSET Ids /\ reg \in 0..MaxId /\ nextid \in 1..(MaxId + 1)
  /\ units \in [Ids -> SUBSET Syms] /\ done \in [Ids -> SUBSET Syms]
IndInv ==
  /\ TypeOK
  /\ reg \notin live
  /\ \A c \in Active : c < nextid
  /\ \A c \in live : reg = 0 \/ c < reg                      \* a constructor runs inside every open scope
  /\ \A s \in AllSyms : (s \in BaseSyms <=> owner[s] = 0)
  /\ \A t \in AllTypes : (t \in BaseTypes <=> towner[t] = 0)
  /\ \A s \in AllSyms : owner[s] > 0 => owner[s] \in Active /\ s \in done[owner[s]]
  /\ \A c \in Active : done[c] \subseteq units[c] /\ \A s \in done[c] : owner[s] = c
  /\ \A c \in live : done[c] = units[c]
  /\ \A c \in Ids \ Active : units[c] = {} /\ done[c] = {}
  \* a custom type is owned by an active scope that registered a unit of it, and every registered unit of a
  \* custom type finds it owned by itself or by a scope opened earlier
  /\ \A t \in AllTypes : towner[t] > 0 => towner[t] \in Active /\ \E s \in done[towner[t]] : TypOf[s] = t
  /\ \A c \in Active : \A s \in done[c] : TypOf[s] \in AllTypes => (towner[TypOf[s]] >= 0 /\ towner[TypOf[s]] <= c)

THEOREM Spec => [](Restored /\ BaseIntact /\ Usable)
=============================================================================
