---------------------------- MODULE Helpers2MC ----------------------------
(***************************************************************************)
(* Model checking and scenario emission for Helpers2.tla: every machine    *)
(* runs in lock-step with its ideal under every operation sequence of the  *)
(* length Depth[which]; each sequence is one state (history variable) and  *)
(* is printed as one JSON record: the operations and, after each, what the *)
(* ideal says the public observations are (iobs, outcome of the call) and, *)
(* where a named deviation of the machine is in play (dev # {}), what the  *)
(* machine says (m).  The harness replays them on the real classes.        *)
(*                                                                         *)
(* `which`:  "cf" / "cfx"  CachedFunction with a cache file named *.npy /  *)
(*                         *.dat                                           *)
(*           "sw0" / "sw1" Stopwatch with a clock that stands still /      *)
(*                         advances by 1 at every reading (machine only)   *)
(*           "pb<k>"       ProgressBar(PBSteps[k])                         *)
(*           "nd<k>"       NormalizeData(NDConfs[k])                       *)
(*                                                                         *)
(* Refines: wherever the ideal decides (judged, field not left open) and   *)
(* no named deviation is in play, machine and ideal agree on every         *)
(* observation and on which calls fail.                                    *)
(***************************************************************************)
EXTENDS Helpers2, Json

CONSTANTS Machines2, Depth,
          CFArgs,                 \* sequence of [id, json]
          SWNames, Ticks,
          PBSteps,                \* [pb1 |-> n1, ...]
          NDConfs, NDOps          \* [nd1 |-> [xa, ya], ...] ; set of [z, x, y]

VARIABLES which, m, i, judged, tags, last, hist
vars == <<which, m, i, judged, tags, last, hist>>

IsCF == which \in {"cf", "cfx"}
IsSW == which \in {"sw0", "sw1"}
IsPB == which \in DOMAIN PBSteps
IsND == which \in DOMAIN NDConfs

IObs == CASE IsCF -> CFI_Obs(i, CFArgs) [] IsSW -> SWI_Obs(i) [] IsPB -> PBI_Obs(i) [] IsND -> NDI_Obs(i)
MObs == CASE IsCF -> CFM_Obs(m, CFArgs) [] IsSW -> SWM_Obs(m) [] IsPB -> PBM_Obs(m) [] IsND -> NDM_Obs(m)
DevNow == CASE IsSW -> SW_DevNow(m) [] IsPB -> PB_DevNow(m) [] OTHER -> {}
OpenFields == CASE IsPB -> {"tot"} [] IsND -> {"items"} [] OTHER -> {}          \* option-valued in the ideal: <<>> = not decided

NoLast == [ierr |-> FALSE, merr |-> FALSE, iret |-> <<>>, mret |-> <<>>]
Init == which = "none" /\ m = <<>> /\ i = <<>> /\ judged = TRUE /\ tags = {} /\ last = NoLast /\ hist = <<>>

New(w, m0, i0, jd) == /\ which' = w /\ m' = m0 /\ i' = i0 /\ judged' = jd /\ tags' = {} /\ last' = NoLast
Choose ==
  /\ which = "none"
  /\ \/ "cf" \in Machines2 /\ New("cf", CFM_New("npy"), CFI_New, TRUE)
     \/ "cfx" \in Machines2 /\ New("cfx", CFM_New("dat"), CFI_New, TRUE)
     \/ "sw0" \in Machines2 /\ New("sw0", SWM_New(0), SWI_New, TRUE)
     \/ "sw1" \in Machines2 /\ New("sw1", SWM_New(1), SWI_New, FALSE)          \* the ideal is defined for the standing clock
     \/ \E w \in Machines2 \cap DOMAIN PBSteps : New(w, PBM_New(PBSteps[w], 0), PBI_New(PBSteps[w], 0), TRUE)
     \/ \E w \in Machines2 \cap DOMAIN NDConfs : New(w, NDM_New(NDConfs[w].xa, NDConfs[w].ya), NDI_New(NDConfs[w].xa, NDConfs[w].ya), TRUE)
  /\ hist' = <<[op |-> [op |-> "new"]]>>

Room == Len(hist) <= Depth[which]
\* hist' after an operation; the primed variables are already determined
Log(op) ==
  hist' = Append(hist, [op |-> op, judged |-> judged',
                        iobs |-> IObs', ierr |-> last'.ierr, iret |-> last'.iret,
                        dev |-> tags' \cup DevNow',
                        m |-> IF tags' \cup DevNow' = {} /\ judged' THEN <<>> ELSE <<[obs |-> MObs', err |-> last'.merr, ret |-> last'.mret]>>])

CFDo(op) ==
  LET is == CFI_Step(i, op)  ms == CFM_Step(m, op) IN
  /\ i' = is.t /\ m' = ms.m /\ tags' = tags \cup CF_Dev(m, op, CFArgs)
  /\ last' = [ierr |-> is.err, merr |-> ms.err, iret |-> is.ret, mret |-> ms.ret]
  /\ UNCHANGED <<which, judged>> /\ Log(op)
CFNext ==
  /\ IsCF /\ Room
  /\ \/ \E n \in 1..Len(CFArgs) : CFDo([op |-> "call", arg |-> CFArgs[n]])
     \/ \E n \in 1..Len(CFArgs) : CFArgs[n].json # "#err" /\ CFDo([op |-> "delete", arg |-> CFArgs[n]])
     \/ CFDo([op |-> "redefine"])

SWDo(op) ==
  LET is == SWI_Step(i, op)  ms == SWM_Step(m, op) IN
  /\ i' = is.t /\ m' = ms.m /\ last' = [ierr |-> is.err, merr |-> ms.err, iret |-> <<>>, mret |-> <<>>]
  /\ UNCHANGED <<which, judged, tags>> /\ Log(op)
SWNext ==
  /\ IsSW /\ Room
  /\ \/ \E d \in Ticks : SWDo([op |-> "tick", d |-> d])
     \/ \E n \in SWNames, o \in {"start", "stop"} : SWDo([op |-> o, name |-> n])

PBDo(op) ==
  /\ i' = PBI_Step(i, op) /\ m' = PBM_Step(m, op) /\ judged' = (judged /\ PBI_Specified(i, op))
  /\ last' = NoLast /\ UNCHANGED <<which, tags>> /\ Log(op)
PBNext ==
  /\ IsPB /\ Room /\ judged
  /\ \/ \E d \in Ticks \cup {59, 60} : PBDo([op |-> "tick", d |-> d])
     \/ \E b \in BOOLEAN : PBDo([op |-> "step", info |-> b])
     \/ PBDo([op |-> "close"])

NDDo(op) ==
  LET is == NDI_Step(i, op)  ms == NDM_Step(m, op) IN
  /\ i' = is.t /\ m' = ms.m /\ last' = [ierr |-> is.err, merr |-> ms.err, iret |-> <<>>, mret |-> <<>>]
  /\ UNCHANGED <<which, judged, tags>> /\ Log(op)
NDNext == IsND /\ Room /\ \E o \in NDOps : NDDo([op |-> "append", z |-> o.z, x |-> o.x, y |-> o.y])

Next == Choose \/ CFNext \/ SWNext \/ PBNext \/ NDNext
Spec == Init /\ [][Next]_vars

\* two time texts are the same number in the same unit
TextEq(a, b) == a.unit = b.unit /\ a.num * b.den = b.num * a.den
ObsAgree(io, mo) ==
  IF IsPB THEN /\ io.cur = mo.cur /\ io.n = mo.n /\ io.fill = mo.fill /\ io.info = mo.info /\ TextEq(io.et, mo.et)
               /\ (io.tot = <<>> \/ TextEq(io.tot[1], mo.tot))
  ELSE \A f \in DOMAIN io : IF f \in OpenFields THEN io[f] = <<>> \/ io[f][1] = mo[f] ELSE io[f] = mo[f]
Refines == (which # "none" /\ judged /\ tags \cup DevNow = {}) =>
             (ObsAgree(IObs, MObs) /\ last.ierr = last.merr /\ last.iret = last.mret)
\* the named deviations are reachable (each must be violated: sensitivity)
NoDevCF == ~(IsCF /\ tags # {})
NoDevSW == ~(which = "sw0" /\ DevNow # {})
NoDevPB == ~(IsPB /\ DevNow # {})
Emit == (which # "none" /\ Len(hist) = Depth[which] + 1) => PrintT(ToJson([kind |-> "hist2", w |-> which, hist |-> hist]))
=============================================================================
