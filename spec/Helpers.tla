------------------------------ MODULE Helpers ------------------------------
(***************************************************************************)
(* C20 - table, row and grid helpers behave like their simple models.      *)
(*                                                                         *)
(* Pure definitions (no variables) of, for each helper class,              *)
(*                                                                         *)
(*   the IDEAL   - what the property says: an insertion-ordered map from   *)
(*                 key to a record with the declared fields; a list of     *)
(*                 records; a list of rows (sorting = a permutation of     *)
(*                 whole rows that is monotone in one column); a grid      *)
(*                 layout as a REQUIREMENT (cells distinct, grid covered   *)
(*                 exactly once, documented order); the Cartesian product  *)
(*                 as a REQUIREMENT (every index tuple exactly once, value *)
(*                 tuple matching, documented order);                      *)
(*   the MACHINE - what the code keeps and does: ParameterTable._keys      *)
(*                 beside the dict ParameterTable._data (a Python dict is  *)
(*                 itself ordered: a sequence of <<key, value>> pairs),    *)
(*                 one list/array per column of a RowCollector and an      *)
(*                 argsort applied column by column, index arithmetic of   *)
(*                 DataPlotGrid.items, the pool fold of itertools.product. *)
(*                                                                         *)
(* The state machines over these definitions are in HelpersMC.tla (model   *)
(* checking, scenario emission) and HelpersTrace.tla (validation of        *)
(* executions recorded from the real classes).                             *)
(*                                                                         *)
(* Encoding.  A cell of a RowCollector is an integer n, written <<0, n>>,   *)
(* or a string, written <<1, c1, c2, ...>> with its character codes, so    *)
(* that the specification itself defines the order used by sort (TLC has   *)
(* no order on strings) and any two cells can be compared for equality.    *)
(* Values of a ParameterTable record are plain integers.  A lookup         *)
(* that may fail returns an option: <<>> (the call raised) or <<value>>.   *)
(* Positions are 1-based here and 0-based in Python.                       *)
(*                                                                         *)
(* Named deviation of the machine from the ideal (finding of C20, repaired  *)
(* in /repo by d407643; DevStrTrunc = FALSE transcribes the repaired code, *)
(* TRUE the code before the fix):                                          *)
(*   "array_str_trunc" : RowCollector(array=True) with a column declared   *)
(*        dtype=str keeps only the first character of every appended       *)
(*        string (the empty array has dtype <U1 and append() converts the  *)
(*        new value to the dtype of the existing array).                   *)
(* Failures in the middle of a call (inputs outside the property, class    *)
(* "unspecified", modelled so that recorded traces can be followed):       *)
(*   PTM_AppendBad   : ParameterTable.append(key, non-iterable) has put    *)
(*        the key into _keys when zip() raises; _data does not get it.     *)
(*   RCM_AppendList with a short row : the first columns have received     *)
(*        their value when values[n] raises IndexError (ragged columns).   *)
(***************************************************************************)
EXTENDS Integers, Sequences, FiniteSets, TLC

CONSTANT DevStrTrunc      \* BOOLEAN: the machine transcribes the <U1 truncation (finding open) or the repaired append

Range(s) == {s[n] : n \in 1..Len(s)}
Min2(a, b) == IF a < b THEN a ELSE b
None == <<>>
Some(x) == <<x>>
FirstIdx(s, x) == CHOOSE n \in 1..Len(s) : s[n] = x /\ \A q \in 1..(n - 1) : s[q] # x
RemoveAt(s, n) == SubSeq(s, 1, n - 1) \o SubSeq(s, n + 1, Len(s))
Distinct(s) == \A a, b \in 1..Len(s) : s[a] = s[b] => a = b
Perms(n) == {p \in [1..n -> 1..n] : \A a, b \in 1..n : p[a] = p[b] => a = b}
RECURSIVE Flatten(_)
Flatten(ss) == IF ss = <<>> THEN <<>> ELSE Head(ss) \o Flatten(Tail(ss))

(***************************************************************************)
(*                    ParameterTable(keys=True) : IDEAL                    *)
(* An insertion-ordered map: the order in which the present keys were      *)
(* first inserted (since their last deletion) and the record of each.      *)
(***************************************************************************)
PTI_New(S, kn) == [settings |-> S, keyname |-> kn, order |-> <<>>, val |-> {}]
PTI_Has(t, k) == k \in Range(t.order)
PTI_Get(t, k) == (CHOOSE p \in t.val : p[1] = k)[2]
\* the record with the declared fields
PTI_Rec(S, vals) == [f \in Range(S) |-> vals[FirstIdx(S, f)]]
PTI_ValsOk(S, vals) == Len(vals) = Len(S)          \* otherwise: not a record with the declared fields (unspecified)
PTI_Put(t, k, vals) == [t EXCEPT !.order = IF PTI_Has(t, k) THEN @ ELSE Append(@, k),
                                 !.val = {p \in @ : p[1] # k} \cup {<<k, PTI_Rec(t.settings, vals)>>}]
PTI_Del(t, k) == [t EXCEPT !.order = RemoveAt(@, FirstIdx(@, k)), !.val = {p \in @ : p[1] # k}]
RECURSIVE PTI_Fold(_, _)
PTI_Fold(t, pairs) == IF pairs = <<>> THEN t ELSE PTI_Fold(PTI_Put(t, pairs[1][1], pairs[1][2]), Tail(pairs))

\* op is a record [op |-> name, k |-> key, v |-> value list]; result [t, err]
PTI_Specified(t, op) == CASE op.op \in {"append", "setitem"} -> PTI_ValsOk(t.settings, op.v)
                          [] op.op = "delitem" -> TRUE
                          [] OTHER -> FALSE
PTI_Step(t, op) == CASE op.op \in {"append", "setitem"} -> [t |-> PTI_Put(t, op.k, op.v), err |-> FALSE]
                     [] op.op = "delitem" -> IF PTI_Has(t, op.k) THEN [t |-> PTI_Del(t, op.k), err |-> FALSE]
                                             ELSE [t |-> t, err |-> TRUE]      \* a map without the key: the call fails, nothing changes

\* what a ParameterSettings object shows
RecObs(S, rec) == [keys |-> S,                                             \* .keys()
                   items |-> [q \in 1..Len(S) |-> <<S[q], rec[S[q]]>>],      \* .items()
                   str |-> [q \in 1..Len(S) |-> <<S[q], rec[S[q]]>>],        \* "ParameterSettings(a=1 b=2)"
                   data |-> rec, attr |-> rec, item |-> rec]                  \* .data(), rec.a, rec['a']

PTI_Frame(t) == LET S == t.settings  n == Len(t.order) IN
  Some([cols |-> <<t.keyname>> \o S,
        rows |-> [j \in 1..n |-> <<t.order[j]>> \o [q \in 1..Len(S) |-> PTI_Get(t, t.order[j])[S[q]]]]])
\* every public accessor; P = keys to probe, NP = number of positions to probe
PTI_Obs(t, P, NP) ==
  LET n == Len(t.order)
      S == t.settings
      r(j) == PTI_Get(t, t.order[j])
  IN [ len    |-> n,
       keys   |-> t.order,
       items  |-> [j \in 1..n |-> <<t.order[j], r(j)>>],
       data   |-> [j \in 1..n |-> <<t.order[j], r(j)>>],
       iter   |-> Some([j \in 1..n |-> r(j)]),
       has    |-> [k \in P |-> PTI_Has(t, k)],
       bykey  |-> [k \in P |-> IF PTI_Has(t, k) THEN Some(RecObs(S, PTI_Get(t, k))) ELSE None],
       byattr |-> [k \in P |-> IF PTI_Has(t, k) THEN Some(PTI_Get(t, k)) ELSE None],
       bypos  |-> [j \in 1..NP |-> IF j <= n THEN Some(r(j)) ELSE None],
       shape  |-> <<n, Len(S)>>,
       str    |-> t.order,
       frame  |-> PTI_Frame(t),                                          \* to_dataframe()
       text   |-> PTI_Frame(t) ]                                         \* to_text(): the same table printed
PTI_Compact(t) == [o |-> t.order, r |-> [j \in 1..Len(t.order) |-> PTI_Get(t, t.order[j])]]

(***************************************************************************)
(*                   ParameterTable(keys=True) : MACHINE                   *)
(* _keys : list ;  _data : dict (sequence of <<key, ParameterSettings>>)   *)
(***************************************************************************)
D_Has(d, k) == \E n \in 1..Len(d) : d[n][1] = k
D_Idx(d, k) == CHOOSE n \in 1..Len(d) : d[n][1] = k
D_Get(d, k) == d[D_Idx(d, k)][2]
D_Set(d, k, v) == IF D_Has(d, k) THEN [d EXCEPT ![D_Idx(d, k)] = <<k, v>>] ELSE Append(d, <<k, v>>)
D_Del(d, k) == RemoveAt(d, D_Idx(d, k))
D_Keys(d) == [n \in 1..Len(d) |-> d[n][1]]

PTM_New(S, kn) == [settings |-> S, keyname |-> kn, keys |-> <<>>, data |-> <<>>]
\* ParameterSettings(dict(zip(self._settings, values))) : zip stops at the shorter sequence
PTM_Settings(S, vals) == [f \in {S[q] : q \in 1..Min2(Len(S), Len(vals))} |-> vals[FirstIdx(S, f)]]
\* append(key, values) ; __setitem__ calls it
PTM_Append(m, k, vals) == [m EXCEPT !.keys = IF k \in Range(@) THEN @ ELSE Append(@, k),
                                    !.data = D_Set(@, k, PTM_Settings(m.settings, vals))]
\* values is not iterable: zip() raises after `self._keys.append(key)`
PTM_AppendBad(m, k) == [m EXCEPT !.keys = IF k \in Range(@) THEN @ ELSE Append(@, k)]
\* __delitem__ : self._keys.remove(index) ; del self._data[index]
PTM_Del(m, k) == IF k \notin Range(m.keys) THEN [m |-> m, err |-> TRUE]
                 ELSE IF ~D_Has(m.data, k) THEN [m |-> [m EXCEPT !.keys = RemoveAt(@, FirstIdx(@, k))], err |-> TRUE]
                 ELSE [m |-> [m EXCEPT !.keys = RemoveAt(@, FirstIdx(@, k)), !.data = D_Del(@, k)], err |-> FALSE]
RECURSIVE PTM_Fold(_, _)
PTM_Fold(m, pairs) == IF pairs = <<>> THEN m ELSE PTM_Fold(PTM_Append(m, pairs[1][1], pairs[1][2]), Tail(pairs))
PTM_Step(m, op) == CASE op.op \in {"append", "setitem"} -> [m |-> PTM_Append(m, op.k, op.v), err |-> FALSE]
                     [] op.op = "delitem" -> PTM_Del(m, op.k)
                     [] op.op = "append_bad" -> [m |-> PTM_AppendBad(m, op.k), err |-> TRUE]

PTM_GetKey(m, k) == IF D_Has(m.data, k) THEN Some(D_Get(m.data, k)) ELSE None          \* self._data[key]
PTM_GetPos(m, j) == IF j <= Len(m.keys) THEN PTM_GetKey(m, m.keys[j]) ELSE None        \* self._data[self._keys[key]]
PTM_Full(S, rec) == DOMAIN rec = Range(S)
\* a ParameterSettings object made from a short value list has the first fields only
RecObsM(S, rec) == RecObs(SubSeq(S, 1, Cardinality(DOMAIN rec)), rec)
PTM_Obs(m, P, NP) ==
  LET S == m.settings
      nk == Len(m.keys)
      nd == Len(m.data)
      insync == \A j \in 1..nk : D_Has(m.data, m.keys[j])
      full == \A j \in 1..nd : PTM_Full(S, m.data[j][2])
      fr == IF full THEN Some([cols |-> <<m.keyname>> \o S,                       \* pandas rejects a short row
                               rows |-> [j \in 1..nd |-> <<m.data[j][1]>> \o [q \in 1..Len(S) |-> m.data[j][2][S[q]]]]])
            ELSE None
  IN [ len    |-> nd,                                                  \* len(self._data)
       keys   |-> m.keys,                                              \* self._keys
       items  |-> m.data,                                              \* self._data.items()
       data   |-> m.data,                                              \* {k: v.data() for k, v in self.items()}
       iter   |-> IF insync THEN Some([j \in 1..nk |-> D_Get(m.data, m.keys[j])]) ELSE None,   \* __getitem__(0), (1), ... until IndexError
       has    |-> [k \in P |-> k \in Range(m.keys)],                   \* item in self._keys
       bykey  |-> [k \in P |-> IF D_Has(m.data, k) THEN Some(RecObsM(S, D_Get(m.data, k))) ELSE None],
       byattr |-> [k \in P |-> PTM_GetKey(m, k)],                      \* __getattr__ reads self._data
       bypos  |-> [j \in 1..NP |-> PTM_GetPos(m, j)],
       shape  |-> <<nd, Len(S)>>,
       str    |-> m.keys,                                              \* ", ".join(self._keys)
       frame  |-> fr, text |-> fr ]
PTM_Compact(m) == [k |-> m.keys, d |-> m.data]

(***************************************************************************)
(*        ParameterTable without keys (list of records) : IDEAL/MACHINE    *)
(***************************************************************************)
PLI_New(S) == [settings |-> S, recs |-> <<>>]
PLI_Specified(t, op) == CASE op.op = "append" -> PTI_ValsOk(t.settings, op.v)
                          [] op.op = "delitem" -> op.p >= 1      \* negative positions: Python idiom, not part of the property
                          [] OTHER -> FALSE
PLI_Step(t, op) == CASE op.op = "append" -> [t |-> [t EXCEPT !.recs = Append(@, PTI_Rec(t.settings, op.v))], err |-> FALSE]
                     [] op.op = "delitem" -> IF op.p <= Len(t.recs) THEN [t |-> [t EXCEPT !.recs = RemoveAt(@, op.p)], err |-> FALSE]
                                             ELSE [t |-> t, err |-> TRUE]
PLI_Obs(t, NP) ==
  LET n == Len(t.recs)  S == t.settings IN
  [ len   |-> n,
    items |-> [j \in 1..n |-> <<j - 1, t.recs[j]>>],           \* (position, record)
    data  |-> t.recs,
    iter  |-> Some(t.recs),
    bypos |-> [j \in 1..NP |-> IF j <= n THEN Some(RecObs(S, t.recs[j])) ELSE None],
    shape |-> <<n, Len(S)>>,
    frame |-> Some([cols |-> S, rows |-> [j \in 1..n |-> [q \in 1..Len(S) |-> t.recs[j][S[q]]]]]),
    text  |-> Some([cols |-> S, rows |-> [j \in 1..n |-> [q \in 1..Len(S) |-> t.recs[j][S[q]]]]]) ]
PLI_Compact(t) == [r |-> t.recs]

PLM_New(S) == [settings |-> S, data |-> <<>>]                    \* _keys is None, _data is a list
PLM_Step(m, op) == CASE op.op = "append" -> [m |-> [m EXCEPT !.data = Append(@, PTM_Settings(m.settings, op.v))], err |-> FALSE]
                     [] op.op = "delitem" -> IF op.p <= Len(m.data) THEN [m |-> [m EXCEPT !.data = RemoveAt(@, op.p)], err |-> FALSE]
                                             ELSE [m |-> m, err |-> TRUE]          \* del self._data[index] : IndexError
PLM_Obs(m, NP) ==
  LET n == Len(m.data)  S == m.settings
      full == \A j \in 1..n : PTM_Full(S, m.data[j])
      fr == IF full THEN Some([cols |-> S, rows |-> [j \in 1..n |-> [q \in 1..Len(S) |-> m.data[j][S[q]]]]]) ELSE None
  IN [ len   |-> n,
       items |-> [j \in 1..n |-> <<j - 1, m.data[j]>>],         \* [(key, value) for key, value in enumerate(self._data)]
       data  |-> m.data,
       iter  |-> Some(m.data),
       bypos |-> [j \in 1..NP |-> IF j <= n THEN Some(RecObsM(S, m.data[j])) ELSE None],
       shape |-> <<n, Len(S)>>,
       frame |-> fr, text |-> fr ]
PLM_Compact(m) == [d |-> m.data]

(***************************************************************************)
(*                        order of cell values                             *)
(***************************************************************************)
RECURSIVE LexLess(_, _)
LexLess(s, t) == IF t = <<>> THEN FALSE
                 ELSE IF s = <<>> THEN TRUE
                 ELSE IF s[1] # t[1] THEN s[1] < t[1]
                 ELSE LexLess(Tail(s), Tail(t))
\* kind of a column: "str", or a numeric one - "int" or, for array columns with a declared dtype, "uint8", "uint64", "float"
\* (the dtype is storage only: the order of a numeric column is the order of its numbers, whatever the dtype)
Less(kind, x, y) == IF kind = "str" THEN LexLess(Tail(x), Tail(y)) ELSE x[2] < y[2]
\* the cell is a value of the column's declared type (otherwise the append is a conversion, which the property does not describe)
Fits(kind, v) == CASE kind = "str" -> v[1] = 1
                   [] kind = "uint8" -> v[1] = 0 /\ v[2] >= 0 /\ v[2] <= 255
                   [] kind = "uint64" -> v[1] = 0 /\ v[2] >= 0
                   [] OTHER -> v[1] = 0
Leq(kind, x, y) == x = y \/ Less(kind, x, y)

(***************************************************************************)
(*                        RowCollector : IDEAL                             *)
(* a list of rows; every row has one cell per column                       *)
(***************************************************************************)
RCI_New(cols, kindof) == [cols |-> cols, kindof |-> kindof, rows |-> <<>>]
RCI_ColIdx(t, name) == FirstIdx(t.cols, name)
DictNames(pairs) == [n \in 1..Len(pairs) |-> pairs[n][1]]
DictGet(pairs, name) == pairs[CHOOSE n \in 1..Len(pairs) : pairs[n][1] = name][2]

\* the rows are in non-decreasing (reverse: non-increasing) order of column q
SortedBy(rows, q, kind, rev) ==
  \A a, b \in 1..Len(rows) : a < b => IF rev THEN Leq(kind, rows[b][q], rows[a][q]) ELSE Leq(kind, rows[a][q], rows[b][q])
Count(rows, r) == Cardinality({n \in 1..Len(rows) : rows[n] = r})
SameBag(r1, r2) == Len(r1) = Len(r2) /\ \A r \in Range(r1) \cup Range(r2) : Count(r1, r) = Count(r2, r)
\* THE property of sort: whole rows permuted, monotone in the column, nothing else changes
RCI_SortOK(t, t2, name, rev) ==
  /\ t2.cols = t.cols
  /\ SameBag(t.rows, t2.rows)
  /\ SortedBy(t2.rows, RCI_ColIdx(t, name), t.kindof[name], rev)
\* the same as a set of admissible results (small tables only: enumerates permutations)
RCI_SortResults(t, name, rev) ==
  LET n == Len(t.rows)
      cand == {[a \in 1..n |-> t.rows[p[a]]] : p \in Perms(n)}
  IN {[t EXCEPT !.rows = rr] : rr \in {x \in cand : SortedBy(x, RCI_ColIdx(t, name), t.kindof[name], rev)}}

RCI_Specified(t, op) ==
  CASE op.op = "append_list" -> /\ t.cols # <<>> /\ Len(op.row) = Len(t.cols)
                                /\ \A q \in 1..Len(t.cols) : Fits(t.kindof[t.cols[q]], op.row[q])
    [] op.op = "append_dict" -> /\ op.row # <<>>
                                /\ (t.cols # <<>> => Range(DictNames(op.row)) = Range(t.cols))
                                /\ \A n \in 1..Len(op.row) : op.row[n][1] \in DOMAIN t.kindof => Fits(t.kindof[op.row[n][1]], op.row[n][2])
    [] op.op = "sort" -> TRUE
    [] OTHER -> FALSE
\* deterministic operations; sort is RCI_SortOK / RCI_SortResults (unknown column: the call fails, nothing changes)
RCI_Step(t, op) ==
  CASE op.op = "append_list" -> [t |-> [t EXCEPT !.rows = Append(@, op.row)], err |-> FALSE]
    [] op.op = "append_dict" ->
         LET cols2 == IF t.cols = <<>> THEN DictNames(op.row) ELSE t.cols
         IN [t |-> [t EXCEPT !.cols = cols2,
                             !.rows = Append(@, [q \in 1..Len(cols2) |-> DictGet(op.row, cols2[q])])], err |-> FALSE]
RCI_SortFails(t, op) == op.name \notin Range(t.cols)

Reverse(s) == [n \in 1..Len(s) |-> s[Len(s) + 1 - n]]
RCI_Obs(t) ==
  LET nc == Len(t.cols)  nr == Len(t.rows)
      bycol == [q \in 1..nc |-> <<t.cols[q], [n \in 1..nr |-> t.rows[n][q]]>>]
  IN
  [ size  |-> nr,                                                       \* size(), len()
    shape |-> <<nc, nr>>,                                               \* (columns, rows): as the tests have it
    dict  |-> bycol,                                                    \* to_dict()
    attr  |-> bycol,                                                    \* rc.<column>
    item  |-> bycol,                                                    \* rc['<column>']
    frame |-> Some([cols |-> t.cols, rows |-> t.rows]),                 \* to_dataframe()
    text  |-> Some([cols |-> t.cols, rows |-> t.rows]),                 \* to_text(), str()
    csv   |-> Some([cols |-> t.cols, rows |-> t.rows]),                 \* to_csv(file), read back
    file  |-> Some([cols |-> t.cols, rows |-> t.rows]),                 \* to_file(file), read back
    \* to_dataframe(columns=<reversed list>) selects and orders columns
    rframe |-> Some([cols |-> Reverse(t.cols), rows |-> [n \in 1..nr |-> Reverse(t.rows[n])]]) ]
RCI_Compact(t) == [c |-> t.cols, r |-> t.rows]

(***************************************************************************)
(*                        RowCollector : MACHINE                           *)
(* _columns : list of names ; one attribute per column holding a list      *)
(* (mode "list") or an array (mode "arr": default float arrays, "typed":   *)
(* arrays with the declared dtype int / uint8 / uint64 / float / str).     *)
(* col[q] is the attribute named columns[q].                               *)
(***************************************************************************)
RCM_New(mode, cols, kindof) == [mode |-> mode, columns |-> cols, kindof |-> kindof, col |-> [q \in 1..Len(cols) |-> <<>>]]
\* np.array(value, dtype=data.dtype): a <U1 array takes one character
RCM_TruncHere(m, name, v) == DevStrTrunc /\ m.mode = "typed" /\ m.kindof[name] = "str" /\ Len(v) > 2
RCM_Store(m, name, v) == IF RCM_TruncHere(m, name, v) THEN SubSeq(v, 1, 2) ELSE v
\* for n, name in enumerate(self._columns): <column name>.append(values[n])   -- raises IndexError at the first missing value
RCM_AppendRow(m, row) ==
  LET nc == Len(m.columns)  k == Min2(nc, Len(row)) IN
  [m |-> [m EXCEPT !.col = [q \in 1..nc |-> IF q <= k THEN Append(@[q], RCM_Store(m, m.columns[q], row[q])) ELSE @[q]]],
   err |-> Len(row) < nc]
RCM_AppendDict(m, pairs) ==
  LET names == DictNames(pairs)
      missing == {x \in Range(names) : x \notin Range(m.columns)}
  IN IF missing # {} /\ m.columns # <<>> THEN [m |-> m, err |-> TRUE]                     \* raise Exception('Missing columns:', missing)
     ELSE LET m2 == IF missing # {} THEN [m EXCEPT !.columns = names, !.col = [q \in 1..Len(names) |-> <<>>]] ELSE m
          IN IF \E q \in 1..Len(m2.columns) : m2.columns[q] \notin Range(names)
             THEN [m |-> m2, err |-> TRUE]                                               \* values[name] : KeyError
             ELSE RCM_AppendRow(m2, [q \in 1..Len(m2.columns) |-> DictGet(pairs, m2.columns[q])])
RCM_Ragged(m) == \E a, b \in 1..Len(m.col) : Len(m.col[a]) # Len(m.col[b])
\* ids = np.argsort(column) [::-1 if reverse] ; every column = column[ids]
RCM_SortResults(m, name, rev) ==
  LET nc == Len(m.columns)
      c == m.col[FirstIdx(m.columns, name)]
      n == Len(c)
      kind == m.kindof[name]
      ids == {p \in Perms(n) : \A a, b \in 1..n : a < b => Leq(kind, c[p[a]], c[p[b]])}      \* any permutation that sorts (unstable kind)
      fin(p) == IF rev THEN [a \in 1..n |-> p[n + 1 - a]] ELSE p
  IN {[m EXCEPT !.col = [q \in 1..nc |-> [a \in 1..n |-> m.col[q][fin(p)[a]]]]] : p \in ids}
RCM_SortFails(m, op) == op.name \notin Range(m.columns)                                   \* getattr raises
RCM_Step(m, op) == CASE op.op = "append_list" -> RCM_AppendRow(m, op.row)
                     [] op.op = "append_dict" -> RCM_AppendDict(m, op.row)
RCM_Size(m) == IF m.columns = <<>> THEN 0 ELSE Len(m.col[1])                              \* len of the first column
RCM_Rows(m) == [n \in 1..RCM_Size(m) |-> [q \in 1..Len(m.columns) |-> m.col[q][n]]]
RCM_Abs(m) == [cols |-> m.columns, kindof |-> m.kindof, rows |-> RCM_Rows(m)]             \* meaningful when not ragged
RCM_Obs(m) ==
  LET nc == Len(m.columns)
      bycol == [q \in 1..nc |-> <<m.columns[q], m.col[q]>>]
      fr == IF RCM_Ragged(m) THEN None ELSE Some([cols |-> m.columns, rows |-> RCM_Rows(m)])          \* pandas rejects ragged columns
  IN
  [ size  |-> RCM_Size(m),
    shape |-> <<nc, RCM_Size(m)>>,
    dict  |-> bycol, attr |-> bycol, item |-> bycol,
    frame |-> fr, text |-> fr, csv |-> fr, file |-> fr,
    rframe |-> IF RCM_Ragged(m) THEN None
               ELSE Some([cols |-> Reverse(m.columns), rows |-> [n \in 1..RCM_Size(m) |-> Reverse(RCM_Rows(m)[n])]]) ]
RCM_Compact(m) == [c |-> m.columns, d |-> m.col]

(***************************************************************************)
(*                          DataPlotGrid                                   *)
(* A layout is two sequences of <<index, row, column>>: the data items and *)
(* the empty ("missing") cells.                                            *)
(***************************************************************************)
\* IDEAL: the least number of rows that holds n items in ncols columns
GridI_NRows(n, ncols) == CHOOSE r \in 0..n : r * ncols >= n /\ \A q \in 0..(r - 1) : q * ncols < n
GridCells(nr, nc) == (0..(nr - 1)) \X (0..(nc - 1))
\* name of the first requirement the layout breaks, or "ok"
GridI_Verdict(n, ncols, transpose, nrows, items, missing) ==
  LET all == items \o missing
      N == Len(all)
      pos(j) == <<all[j][2], all[j][3]>>
      before(a, b) == IF transpose THEN all[a][3] < all[b][3] \/ (all[a][3] = all[b][3] /\ all[a][2] < all[b][2])
                      ELSE all[a][2] < all[b][2] \/ (all[a][2] = all[b][2] /\ all[a][3] < all[b][3])
  IN IF nrows # GridI_NRows(n, ncols) THEN "nrows"
     ELSE IF Len(items) # n THEN "count"                                       \* one position per data item
     ELSE IF \E j \in 1..N : all[j][1] # j - 1 THEN "index"                    \* running index, continued through the empty cells
     ELSE IF \E j \in 1..N : pos(j) \notin GridCells(nrows, ncols) THEN "inside"
     ELSE IF \E a, b \in 1..N : a # b /\ pos(a) = pos(b) THEN "distinct"
     ELSE IF {pos(j) : j \in 1..N} # GridCells(nrows, ncols) THEN "cover"      \* items and empty cells cover the grid exactly once
     ELSE IF \E a, b \in 1..N : a < b /\ ~before(a, b) THEN "order"            \* row by row; transposed: column by column
     ELSE "ok"

\* MACHINE: index arithmetic of DataPlotGrid.__init__ / items
GridM_NRows(n, ncols) == (n + ncols - 1) \div ncols                            \* int(np.ceil(ndata / ncols))
GridM_Pos(i, nr, nc, transpose) == IF transpose THEN <<i % nr, i \div nr>> ELSE <<i \div nc, i % nc>>
GridM_Items(n, nc, transpose) == [j \in 1..n |-> <<j - 1>> \o GridM_Pos(j - 1, GridM_NRows(n, nc), nc, transpose)]
GridM_Missing(n, nc, transpose) ==
  LET nr == GridM_NRows(n, nc) IN [j \in 1..(nc * nr - n) |-> <<n + j - 1>> \o GridM_Pos(n + j - 1, nr, nc, transpose)]
GridM_Figsize(n, nc, ax) == <<nc * ax[1], GridM_NRows(n, nc) * ax[2]>>

(***************************************************************************)
(*                         DataCombination                                 *)
(* out: sequence of <<index tuple, value tuple>> (indices 0-based)         *)
(***************************************************************************)
CombI_Keys(lists) == {k \in [1..Len(lists) -> 0..3] : \A l \in 1..Len(lists) : k[l] < Len(lists[l])}    \* lists of at most 4 items
RECURSIVE TupLess(_, _)
TupLess(s, t) == IF s = <<>> THEN FALSE ELSE IF s[1] # t[1] THEN s[1] < t[1] ELSE TupLess(Tail(s), Tail(t))
CombI_Verdict(lists, out) ==
  LET N == Len(out) IN
  IF \E j \in 1..N : Len(out[j][1]) # Len(lists) \/ Len(out[j][2]) # Len(lists) THEN "arity"
  ELSE IF \E j \in 1..N : \E l \in 1..Len(lists) : out[j][1][l] < 0 \/ out[j][1][l] >= Len(lists[l]) THEN "range"
  ELSE IF \E a, b \in 1..N : a # b /\ out[a][1] = out[b][1] THEN "once"                    \* no combination twice
  ELSE IF N # Cardinality(CombI_Keys(lists)) THEN "all"                                    \* every combination present
  ELSE IF \E j \in 1..N : \E l \in 1..Len(lists) : out[j][2][l] # lists[l][out[j][1][l] + 1] THEN "match"   \* values belong to the indices
  ELSE IF \E a, b \in 1..N : a < b /\ ~TupLess(out[a][1], out[b][1]) THEN "order"         \* last list varies fastest
  ELSE "ok"
\* MACHINE: itertools.product : result = [[]] ; for pool in pools: result = [x + [y] for x in result for y in pool]
RECURSIVE ProdM(_, _)
ProdM(result, pools) ==
  IF pools = <<>> THEN result
  ELSE ProdM(Flatten([x \in 1..Len(result) |-> [y \in 1..Len(pools[1]) |-> Append(result[x], pools[1][y])]]), Tail(pools))
CombM_Keys(lists) == ProdM(<<<<>>>>, [l \in 1..Len(lists) |-> [y \in 1..Len(lists[l]) |-> y - 1]])      \* product(*[range(len(item))])
CombM_Values(lists) == ProdM(<<<<>>>>, lists)                                                         \* product(*items)
CombM_Items(lists) == LET ks == CombM_Keys(lists) IN
  [j \in 1..Len(ks) |-> <<ks[j], [l \in 1..Len(lists) |-> lists[l][ks[j][l] + 1]]>>]

(***************************************************************************)
(* DataCombination over time.  The object is given the caller's list of    *)
(* lists; the documentation does not say that it copies them, and the      *)
(* caller may change them afterwards (append / pop / extend an item list,  *)
(* add a list).  IDEAL: at every moment keys(), values() and items() are   *)
(* the product of ONE state of the lists - the lists as they are now       *)
(* (reference semantics, what the code does) or the lists as they were at  *)
(* construction (copy semantics) - and the three agree with each other.    *)
(* MACHINE: self._items is the caller's list object; every accessor reads  *)
(* it when called.                                                         *)
(***************************************************************************)
CombOut(lists) == [keys |-> CombM_Keys(lists), values |-> CombM_Values(lists), items |-> CombM_Items(lists)]
CMI_New(lists) == [lists |-> lists, snap |-> lists]
CM_Mutate(lists, op) ==
  CASE op.op = "append" -> [lists EXCEPT ![op.l] = Append(@, op.v)]
    [] op.op = "pop" -> [lists EXCEPT ![op.l] = SubSeq(@, 1, Len(@) - 1)]
    [] op.op = "extend" -> [lists EXCEPT ![op.l] = @ \o op.vs]
    [] op.op = "addlist" -> Append(lists, op.vs)
CMI_Step(t, op) == [t EXCEPT !.lists = CM_Mutate(@, op)]
CMI_Obs(t) == [alt |-> <<CombOut(t.lists), CombOut(t.snap)>>]            \* the admissible observations
CMI_Compact(t) == [l |-> t.lists, s |-> t.snap]
\* what one observation [keys, values, items] breaks, with respect to the list state `lists`
CombI_VerdictAll(lists, out) ==
  LET v == CombI_Verdict(lists, out.items) IN
  IF v # "ok" THEN v
  ELSE IF out.keys # [j \in 1..Len(out.items) |-> out.items[j][1]] \/ out.values # [j \in 1..Len(out.items) |-> out.items[j][2]]
       THEN "aligned" ELSE "ok"
CMM_New(lists) == [items |-> lists]
CMM_Step(m, op) == [m EXCEPT !.items = CM_Mutate(@, op)]                  \* the caller changed the object that self._items refers to
CMM_Obs(m) == [alt |-> <<CombOut(m.items)>>]
CMM_Compact(m) == [l |-> m.items]
=============================================================================
