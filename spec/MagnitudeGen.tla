---------------------------- MODULE MagnitudeGen ----------------------------
(***************************************************************************)
(* C08 - scenario source and lemmas for Magnitude.tla.                     *)
(* Source = "enum": all (v1,e1,v2,e2) with v in {-3,-1,2,5}, e in {None,   *)
(*   0, 1/10, 1/2}, exact factors {-3,-1/2,2}, exponents {-2,-1,2,1/2},    *)
(*   under + - * / (Magnitude op Magnitude, op number, number op), neg,    *)
(*   power, conversion and mixed-unit sums over exact-ratio units.         *)
(* Source = "file": conversions / mixed-unit sums over arbitrary linear    *)
(*   table units drawn by the harness (env MAGN_IN), annotated with terms. *)
(***************************************************************************)
EXTENDS Magnitude, Json, IOUtils, TLC

CONSTANTS Source, Emit

FileIn == IF Source = "file" THEN JsonDeserialize(IOEnv.MAGN_IN) ELSE [units |-> <<>>, scenarios |-> <<>>]
FileUnits == FileIn.units
FileScen == FileIn.scenarios
NFile == Len(FileScen)
Stride == 64

VARIABLES stage, sc, idx
vars == <<stage, sc, idx>>

Vs == {RInt(-3), RInt(-1), RInt(2), RInt(5)}
Es == {None, RZero, R(1, 10), R(1, 2)}
Ks == {RInt(-3), R(-1, 2), RInt(2)}
Ps == {RInt(-2), RInt(-1), RInt(2), R(1, 2)}
Mags == {[v |-> v, e |-> e] : v \in Vs, e \in Es} \cup {[v |-> k, e |-> None] : k \in Ks}
\* values whose uncertainty interval reaches or crosses zero (relative uncertainty >= 100 %)
WideMags == {[v |-> RInt(2), e |-> RInt(3)], [v |-> RInt(5), e |-> RInt(7)], [v |-> ROne, e |-> ROne], [v |-> RInt(-2), e |-> RInt(3)]}
UnitPairs == {<<u, w>> : u \in {"m", "c:m", "k:m"}, w \in {"m", "c:m", "k:m"}}
             \cup {<<u, w>> : u \in {"g", "k:g"}, w \in {"g", "k:g"}}
\* a bare number converts to (prefixed) radians - the documented number -> angle rule; "" stands for "no unit"
AnglePairs == {<<"", "rad">>, <<"", "m:rad">>}
DummyM == [v |-> ROne, e |-> None]

\* num: how a plain number is written ("py": Python number / list, "np": numpy.float64 / ndarray, "-": none)
ScenN(kind, op, side, num, a, b, p, ua, ub) ==
  [kind |-> kind, op |-> op, side |-> side, num |-> num, a |-> a, b |-> b, p |-> p, ua |-> ua, ub |-> ub]
Scen(kind, op, side, a, b, p, ua, ub) == ScenN(kind, op, side, "-", a, b, p, ua, ub)

Expand(a) ==
  {Scen("op", op, "mm", a, b, ROne, "-", "-") : op \in BinOps2, b \in Mags}
  \cup {ScenN("op", op, "mn", num, a, b, ROne, "-", "-") : op \in BinOps2, b \in {m \in Mags : IsNone(m.e)}, num \in {"py", "np"}}
  \cup (IF IsNone(a.e) THEN {ScenN("op", op, "nm", num, a, b, ROne, "-", "-") : op \in BinOps2, b \in Mags, num \in {"py", "np"}}
        ELSE {})
  \cup {Scen("op", op, "self", a, a, ROne, "-", "-") : op \in BinOps2}            \* both operands are the SAME object
  \cup {Scen("op", op, "mm", a, b, ROne, "-", "-") : op \in {"div", "mul"}, b \in WideMags}
  \cup {Scen("op", op, "mm", w, a, ROne, "-", "-") : op \in {"div", "mul"}, w \in WideMags}
  \cup (IF a = [v |-> RInt(2), e |-> R(1, 2)]
        THEN {Scen("op", "pow", "m", w, DummyM, p, "-", "-") : w \in WideMags, p \in Ps} ELSE {})
  \cup {Scen("op", "neg", "m", a, DummyM, ROne, "-", "-")}
  \cup {Scen("op", "pow", "m", a, DummyM, p, "-", "-") : p \in Ps}
  \cup {Scen("conv", "to", "q", a, DummyM, ROne, uw[1], uw[2]) : uw \in UnitPairs}
  \cup {Scen("qsum", op, "qq", a, b, ROne, uw[1], uw[2]) : op \in {"add", "sub"}, b \in Mags, uw \in UnitPairs}
  \cup {Scen("conv", "to", "q", a, DummyM, ROne, uw[1], uw[2]) : uw \in AnglePairs}
  \cup {Scen("query", "value", "q", a, DummyM, ROne, uw[1], uw[2]) : uw \in UnitPairs \cup AnglePairs}
  \* rebase() of a quantity written with two units of one dimension (u*w -> u2) is a linear conversion by F(w)/F(u)
  \cup {Scen("rebase", "rebase", "q", a, DummyM, ROne, uw[1], uw[2]) : uw \in UnitPairs}
  \cup {Scen("qcons", "ctor", "q", a, DummyM, ROne, uw[1], uw[2]) : uw \in UnitPairs}
  \cup {Scen("qdiv", "div", "qq", a, b, ROne, uw[1], uw[2]) : b \in Mags, uw \in UnitPairs}

Init == IF Source = "enum" THEN stage = 0 /\ sc = Scen("-", "-", "-", DummyM, DummyM, ROne, "-", "-") /\ idx = 0
        ELSE /\ stage = 2 /\ idx \in 1..(IF NFile < Stride THEN NFile ELSE Stride) /\ sc = FileScen[idx]

Next ==
  IF Source = "enum" THEN
       \/ /\ stage = 0 /\ stage' = 1 /\ idx' = idx
          /\ \E a \in Mags : sc' = Scen("-", "-", "-", a, DummyM, ROne, "-", "-")
       \/ /\ stage = 1 /\ stage' = 2 /\ idx' = idx /\ sc' \in Expand(sc.a)
  ELSE /\ idx + Stride <= NFile /\ idx' = idx + Stride /\ sc' = FileScen[idx'] /\ stage' = 2

-----------------------------------------------------------------------------
Exact == Source = "enum"
FacOf(u) == IF u = "" THEN ROne ELSE UInfo[u].fac
FacRatio(u, w) == IF Exact THEN RDiv(FacOf(u), FacOf(w)) ELSE ROne
TabOf(u) == IF u = "" THEN TQ(ROne) ELSE TTab(u)
FacRatioT(u, w) == TDiv(TabOf(u), TabOf(w))
\* same dimension, or a bare number going to (milli)radians (the documented number -> radian rule; other angle units are
\* not reachable from a bare number)
SameDimU(u, w) == IF u = "" THEN w \in {"rad", "m:rad"} ELSE w # "" /\ UInfo[u].dim = UInfo[w].dim

Class(s) ==
  CASE s.kind = "op" -> IF UnspecifiedM(s.op, s.a, s.b, s.p) THEN "unspecified" ELSE "ok"
    [] s.kind \in {"conv", "qsum", "query", "qcons", "rebase"} -> IF SameDimU(s.ua, s.ub) THEN "ok" ELSE "refused"
    [] s.kind = "qdiv" -> IF ~SameDimU(s.ua, s.ub) THEN "refused"
                          ELSE IF UnspecifiedM("div", s.a, s.b, s.p) THEN "unspecified" ELSE "ok"

Obs(s) ==
  CASE s.kind = "op" -> IdealOb(s.op, s.a, s.b, s.p)
    [] s.kind = "conv" -> ConvOb(s.a, FacRatio(s.ua, s.ub), FacRatioT(s.ua, s.ub), Exact)
    [] s.kind = "qsum" -> QSumOb(s.a, s.b, FacRatio(s.ub, s.ua), FacRatioT(s.ub, s.ua), Exact)
    [] s.kind = "query" -> QueryOb(s.a)
    [] s.kind = "qcons" -> ConvOb(s.a, FacRatio(s.ua, s.ub), FacRatioT(s.ua, s.ub), Exact)
    [] s.kind = "rebase" -> ConvOb(s.a, FacRatio(s.ub, s.ua), FacRatioT(s.ub, s.ua), Exact)
    [] s.kind = "qdiv" -> QDivOb(s.a, s.b, FacRatio(s.ua, s.ub), FacRatioT(s.ua, s.ub), Exact)

Mach(s) ==
  CASE s.kind = "op" -> MErr(s.op, s.a, s.b, s.p)
    [] s.kind = "conv" -> MConvErr(s.a, FacRatio(s.ua, s.ub))
    [] s.kind = "qsum" -> MQSumErr(s.a, s.b, FacRatio(s.ub, s.ua))
    [] s.kind = "query" -> s.a.e                                              \* value(w) builds a new Magnitude
    [] s.kind = "qcons" -> IF IsNone(s.a.e) THEN None ELSE RMul(s.a.e, FacRatio(s.ua, s.ub))   \* magnitude *= factor
    [] s.kind = "rebase" -> IF IsNone(s.a.e) THEN None ELSE RMul(s.a.e, FacRatio(s.ub, s.ua))   \* magnitude *= factor
    [] s.kind = "qdiv" -> MQDivErr(s.a, s.b, FacRatio(s.ua, s.ub))

FeatureTags(s) ==
  CASE s.kind = "op" -> Features(s.op, s.a, s.b, s.p)
    [] s.kind = "conv" -> IF s.ua # s.ub /\ Uncertain(s.a) THEN {"convert", "units_differ"} ELSE {"convert"}
    [] s.kind = "qsum" -> IF s.ua # s.ub /\ Uncertain(s.b) THEN {"mixed_units"} ELSE {}
    [] s.kind \in {"query", "qcons", "qdiv", "rebase"} -> IF s.ua # s.ub THEN {"units_differ"} ELSE {}

\* deviation tags: computed on the exact model; in file mode the machine leaves the error unscaled whenever the
\* units differ and the converted operand is uncertain (the factor is not known to TLC)
Tags(s) ==
  FeatureTags(s) \cup
  (IF Exact THEN DevTags(Obs(s), Mach(s), IF s.kind \in {"conv", "qsum"} THEN "error_not_scaled" ELSE "machine_off_ideal")
   ELSE IF ((s.kind = "conv" /\ s.ua # s.ub /\ Uncertain(s.a)) \/ (s.kind = "qsum" /\ s.ua # s.ub /\ Uncertain(s.b)))
           /\ ~Scaled
        THEN {"error_not_scaled"} ELSE {})

\* in file mode TLC does not know the factors: the transcription's prediction is a number only where no factor enters
MachKnown(s) == Exact \/ s.kind = "query" \/ (s.kind \in {"conv", "qsum"} /\ ~Scaled)

Record(s) ==
  LET c == Class(s) IN
  [id |-> idx, kind |-> s.kind, op |-> s.op, side |-> s.side, num |-> s.num, a |-> s.a, b |-> s.b, p |-> s.p, ua |-> s.ua, ub |-> s.ub,
   cls |-> c, obs |-> IF c = "ok" THEN Obs(s) ELSE <<>>,
   mach |-> IF c = "ok" /\ MachKnown(s) THEN Mach(s) ELSE None,
   machknown |-> c = "ok" /\ MachKnown(s),
   tags |-> IF c = "ok" THEN Tags(s) ELSE {}]

EmitInv == (stage = 2 /\ Emit) => PrintT(ToJson(Record(sc)))

-----------------------------------------------------------------------------
Lemmas ==
  (stage = 2 /\ Exact /\ Class(sc) = "ok") =>
    LET a == sc.a  b == sc.b  obs == Obs(sc) IN
    \* every expected uncertainty is non-negative
    /\ \A i \in DOMAIN obs : obs[i].lhs = "abse" => RSign(obs[i].q) >= 0
    \* a+b and b+a carry the same uncertainty
    /\ (sc.kind = "op" /\ sc.op = "add") => IdealOb("add", a, b, sc.p) = IdealOb("add", b, a, sc.p)
    \* (a.k)/k restores the uncertainty
    /\ (sc.kind = "op" /\ sc.op = "mul" /\ IsNone(b.e) /\ Uncertain(a)) =>
          IdealOb("div", [v |-> RMul(a.v, b.v), e |-> obs[1].q], b, sc.p)[1].q = a.e
    \* the formulas of the code leave the ideal only by the sign of the error (first-order bounds hold for them)
    /\ (sc.kind \in {"op", "query", "qcons", "qdiv", "rebase"}) => DevTags(obs, Mach(sc), "machine_off_ideal") \subseteq {"error_sign"}
    /\ (sc.kind = "op" /\ "error_sign" \in Tags(sc)) => Features(sc.op, a, b, sc.p) # {}
    \* converting there and back restores the uncertainty; relative uncertainty is the absolute one over the value
    /\ (sc.kind = "conv" /\ Uncertain(a)) =>
          /\ RMul(RMul(a.e, FacRatio(sc.ua, sc.ub)), FacRatio(sc.ub, sc.ua)) = a.e
          /\ obs[2].q = RDiv(RMul(RInt(100), obs[1].q), RMul(a.v, FacRatio(sc.ua, sc.ub)))
    \* the unscaled error of the code is off exactly when the factor is not 1
    /\ (sc.kind = "conv" /\ Uncertain(a) /\ ~RIsZero(a.e) /\ ~Scaled) =>
          (("error_not_scaled" \in Tags(sc)) <=> FacRatio(sc.ua, sc.ub) # ROne)
    \* a repaired deviation is transcribed as the ideal
    /\ (Scaled /\ sc.kind # "op") => "error_not_scaled" \notin Tags(sc)
    /\ ("error_sign" \in FixedDevs) => "error_sign" \notin Tags(sc)

\* the formulas of the code satisfy the first-order bounds on a grid of positive rationals: products for ANY uncertainties
\* (also intervals reaching or crossing zero), quotients whenever the divisor's interval is positive
GridV == {R(1, 4), R(1, 2), ROne, RInt(2), RInt(4), RInt(8)}
GridM == {[v |-> v, e |-> RMul(v, k)] : v \in GridV, k \in {RZero, R(1, 4), R(1, 2), R(3, 4), ROne, RInt(2), RInt(3)}}
GridLemma ==
  (stage = 0 /\ Exact) =>
    \A a \in GridM, b \in GridM :
      /\ RLe(FirstOrderMul(a, b), MErr("mul", a, b, ROne))
      /\ RLt(b.e, b.v) => RLe(FirstOrderDiv(a, b), MErr("div", a, b, ROne))

Spec == Init /\ [][Next]_vars
=============================================================================
