------------------------------ MODULE LogUnits ------------------------------
(***************************************************************************)
(* C05, logarithmic units - the IDEAL, written from the DOCUMENTED         *)
(* definitions (docs/source/units/conversions.rst, table "Logarithmic      *)
(* units": bel-milliwatt, bel-watt, bel-volt, bel-microvolt, bel-amps,     *)
(* bel-microamps, bel-ohms, bel-SPL (Pa), bel-SIL (W/m2), bel-SWL (W)),    *)
(* not from the code's conversion table:                                   *)
(*                                                                         *)
(*   level [B] = k * log10( x / ref )    k = 1 power-like, 2 amplitude-like*)
(*   level [Np] = 1/2 ln(PR) = ln(AR)                                      *)
(*   a deci prefix scales the level: 1 B = 10 dB, 1 Np = 10 dNp = 100 cNp  *)
(*   LevelSum(a, b, +-) = 10 log10(10^(a/10) +- 10^(b/10))  in decibels    *)
(*                                                                         *)
(* and the MACHINE: LogarithmicUnitType.conversions as generated into      *)
(* Tables.MLogTable, evaluated exactly on the lattice x = ref * 10^n where *)
(* logarithms are integers.                                                *)
(***************************************************************************)
EXTENDS UnitExpr

\* ref = <<n, d, e>> : n/d * 10^e in the counterpart expression cp (unit names with integer exponents, no prefixes)
LogDefs == <<
  [name |-> "Bm",   fam |-> "power",     ref |-> <<1, 1, -3>>,  cp |-> << <<"W", 1>> >>],
  [name |-> "BmW",  fam |-> "power",     ref |-> <<1, 1, -3>>,  cp |-> << <<"W", 1>> >>],
  [name |-> "BW",   fam |-> "power",     ref |-> <<1, 1, 0>>,   cp |-> << <<"W", 1>> >>],
  [name |-> "BV",   fam |-> "amplitude", ref |-> <<1, 1, 0>>,   cp |-> << <<"V", 1>> >>],
  [name |-> "BuV",  fam |-> "amplitude", ref |-> <<1, 1, -6>>,  cp |-> << <<"V", 1>> >>],
  [name |-> "BA",   fam |-> "amplitude", ref |-> <<1, 1, 0>>,   cp |-> << <<"A", 1>> >>],
  [name |-> "BuA",  fam |-> "amplitude", ref |-> <<1, 1, -6>>,  cp |-> << <<"A", 1>> >>],
  [name |-> "BOhm", fam |-> "amplitude", ref |-> <<1, 1, 0>>,   cp |-> << <<"Ohm", 1>> >>],
  [name |-> "BSPL", fam |-> "amplitude", ref |-> <<2, 1, -5>>,  cp |-> << <<"Pa", 1>> >>],
  [name |-> "BSIL", fam |-> "power",     ref |-> <<1, 1, -12>>, cp |-> << <<"W", 1>>, <<"m", -2>> >>],
  [name |-> "BSWL", fam |-> "power",     ref |-> <<1, 1, -12>>, cp |-> << <<"W", 1>> >>] >>
GenericLog == {"B", "Np"}              \* levels of a bare ratio
RatioUnits == {"PR", "AR"}             \* power ratio, amplitude ratio (dimensionless linear units)
LogNames == {LogDefs[i].name : i \in 1..Len(LogDefs)} \cup GenericLog
BelNames == LogNames \ {"Np"}          \* bel- and decibel-type units (level sums)
KOf(fam) == IF fam = "power" THEN 1 ELSE 2
LDef(name) == LogDefs[CHOOSE i \in 1..Len(LogDefs) : LogDefs[i].name = name]
HasDef(name) == \E i \in 1..Len(LogDefs) : LogDefs[i].name = name

UIdx(name) == CHOOSE u \in 1..NU : Units[u].name = name
UExists(name) == \E u \in 1..NU : Units[u].name = name
\* the counterpart expression as an exponent map over table ids (no prefixes)
CpMap(cp) == [i \in 1..Len(cp) |-> << <<"u", 0, UIdx(cp[i][1])>>, <<cp[i][2], 1>> >>]

(* ------------------------------------------------------------ which pairs are documented *)
\* sides are exponent maps (UnitExpr); a side "is" a log unit / a linear expression up to prefixes
IdName(r) == IF r[1] = "s" THEN SysUnits[r[3]].name ELSE Units[r[3]].name
SingleName(A) == IF Len(A) = 1 /\ A[1][2] = QOne THEN IdName(A[1][1]) ELSE ""
\* same units with the same exponents, prefixes ignored
SameUpToPrefix(A, B) == Len(A) = Len(B) /\
     {<<IdName(A[i][1]), A[i][2]>> : i \in 1..Len(A)} = {<<IdName(B[i][1]), B[i][2]>> : i \in 1..Len(B)}
IsCounterpart(name, B) == HasDef(name) /\ SameUpToPrefix(CpMap(LDef(name).cp), B)

\* "log_lin": L -> its linear counterpart;  "lin_log": the reverse;  "log_ratio" / "ratio_log": B, Np <-> PR, AR;
\* "log_same": the same log unit on both sides (prefixes may differ);  "b_np" / "np_b";
\* "log_offset": two dB-type units with the same family and counterpart (derived offset);  "" : not a documented pair
LogPair(A, B) ==
  LET a == SingleName(A)  b == SingleName(B) IN
  IF a \in LogNames /\ a = b THEN "log_same"
  ELSE IF a \in LogNames /\ HasDef(a) /\ IsCounterpart(a, B) THEN "log_lin"
  ELSE IF b \in LogNames /\ HasDef(b) /\ IsCounterpart(b, A) THEN "lin_log"
  ELSE IF a \in GenericLog /\ b \in RatioUnits THEN "log_ratio"
  ELSE IF a \in RatioUnits /\ b \in GenericLog THEN "ratio_log"
  ELSE IF a = "B" /\ b = "Np" THEN "b_np"
  ELSE IF a = "Np" /\ b = "B" THEN "np_b"
  ELSE IF HasDef(a) /\ HasDef(b) /\ LDef(a).fam = LDef(b).fam /\ LDef(a).cp = LDef(b).cp THEN "log_offset"
  ELSE ""

(* ------------------------------------------------------------ expectations as terms *)
X == <<"x">>                                        \* the magnitude being converted
Q(n, d) == <<"q", n, d>>
P10(e) == <<"p10", e>>
RefTerm(ref) == <<"mul", Q(ref[1], ref[2]), P10(ref[3])>>
\* factor of the prefixes of a side: prod 10^(p10 * e)   (integer exponents on the sides used here)
PrefixTerm(A) == <<"prod", [i \in 1..Len(A) |-> IF A[i][1][1] = "u" /\ A[i][1][2] > 0
                                                THEN <<"powq", P10(Prefixes[A[i][1][2]].p10), A[i][2][1], A[i][2][2]>>
                                                ELSE Q(1, 1)]>>
LevelB(A, x) == <<"mul", x, PrefixTerm(A)>>          \* level in bels (or nepers) of x given in the (prefixed) log unit
LogExpect(kind, A, B) ==
  LET a == SingleName(A)  b == SingleName(B) IN
  CASE kind = "log_same"  -> <<"div", LevelB(A, X), PrefixTerm(B)>>
    [] kind = "log_lin"   -> <<"div", <<"mul", RefTerm(LDef(a).ref), <<"exp10", <<"div", LevelB(A, X), Q(KOf(LDef(a).fam), 1)>>>>>>, PrefixTerm(B)>>
    [] kind = "lin_log"   -> <<"div", <<"mul", Q(KOf(LDef(b).fam), 1), <<"log10", <<"div", <<"mul", X, PrefixTerm(A)>>, RefTerm(LDef(b).ref)>>>>>>, PrefixTerm(B)>>
    [] kind = "log_ratio" -> IF a = "B" THEN <<"exp10", <<"div", LevelB(A, X), Q(IF b = "PR" THEN 1 ELSE 2, 1)>>>>
                             ELSE <<"exp", <<"mul", LevelB(A, X), Q(IF b = "PR" THEN 2 ELSE 1, 1)>>>>
    [] kind = "ratio_log" -> IF b = "B" THEN <<"div", <<"mul", Q(IF a = "PR" THEN 1 ELSE 2, 1), <<"log10", X>>>>, PrefixTerm(B)>>
                             ELSE <<"div", <<"mul", Q(1, IF a = "PR" THEN 2 ELSE 1), <<"ln", X>>>>, PrefixTerm(B)>>
    [] kind = "b_np"      -> <<"div", <<"mul", LevelB(A, X), <<"div", <<"ln", Q(10, 1)>>, Q(2, 1)>>>>, PrefixTerm(B)>>
    [] kind = "np_b"      -> <<"div", <<"mul", LevelB(A, X), <<"div", Q(2, 1), <<"ln", Q(10, 1)>>>>>>, PrefixTerm(B)>>
    [] kind = "log_offset" -> <<"div", <<"add", LevelB(A, X),
                                  <<"mul", Q(KOf(LDef(a).fam), 1), <<"log10", <<"div", RefTerm(LDef(a).ref), RefTerm(LDef(b).ref)>>>>>>>>, PrefixTerm(B)>>
\* tolerance <<rel, abs>> as exponents of ten; the direct B <-> Np constant is documented to four digits only
\* a LINEAR result is judged relatively only (it may be 1e-30); a level may be 0, hence an absolute part
LogTol(kind) == IF kind \in {"b_np", "np_b"} THEN <<-4, -9>>
                ELSE IF kind \in {"log_lin", "log_ratio"} THEN <<-9, -300>>
                ELSE <<-9, -9>>
\* inputs for which the formula is defined ("physically meaningful"): linear levels and ratios are positive
NeedsPositive(kind) == kind \in {"lin_log", "ratio_log"}

\* LevelSum in the unit of the operands: a, b given in a (prefixed) bel-type unit A
LevelSumTerm(A, a, b, sign) ==
  LET dBa == <<"mul", Q(10, 1), <<"mul", a, PrefixTerm(A)>>>>       \* decibels
      dBb == <<"mul", Q(10, 1), <<"mul", b, PrefixTerm(A)>>>>
      pa  == <<"exp10", <<"div", dBa, Q(10, 1)>>>>
      pb  == <<"exp10", <<"div", dBb, Q(10, 1)>>>>
      sum == <<"mul", Q(10, 1), <<"log10", IF sign = 1 THEN <<"add", pa, pb>> ELSE <<"sub", pa, pb>>>>>>
  IN <<"div", <<"div", sum, Q(10, 1)>>, PrefixTerm(A)>>

\* the level pairs of the sum scenarios, in DECIBELS (the harness rescales them to the unit of the operands):
\* every base level with every difference 0 .. 200 dB, in both orders - a sum must follow the power-sum formula
\* whether the second term is equal, comparable or twenty decades below the first
SumBasesdB == << <<0 - 174, 1>>, <<0 - 10, 1>>, <<0, 1>>, <<20, 1>>, <<60, 1>>, <<94, 1>> >>
SumDiffsdB == << <<0, 1>>, <<1, 10>>, <<1, 1>>, <<3, 1>>, <<4, 1>>, <<10, 1>>, <<16, 1>>, <<33, 2>>, <<17, 1>>, <<20, 1>>, <<24, 1>>,
                <<40, 1>>, <<60, 1>>, <<100, 1>>, <<150, 1>>, <<200, 1>> >>
SumPairsdB == [k \in 1..(2 * Len(SumBasesdB) * Len(SumDiffsdB)) |->
                 LET i == ((k - 1) \div (2 * Len(SumDiffsdB))) + 1
                     j == (((k - 1) % (2 * Len(SumDiffsdB))) \div 2) + 1
                     a == SumBasesdB[i]  b == QSub(SumBasesdB[i], SumDiffsdB[j])
                 IN IF k % 2 = 1 THEN <<a, b>> ELSE <<b, a>>]
\* a difference of levels is defined when the first level is the larger one
SubDefined(pr) == QLt(pr[2], pr[1])

(* ------------------------------------------------------------ exact lattice *)
\* numbers m * 10^e with a rational mantissa m free of factors of ten
RECURSIVE Strip10(_)
\* canonical form: denominator coprime to ten, numerator not divisible by ten
Strip10(v) == LET n == v.m[1] d == v.m[2] IN
              IF n = 0 THEN [m |-> <<0, 1>>, e |-> 0]
              ELSE IF d % 2 = 0 THEN Strip10([m |-> <<n * 5, d \div 2>>, e |-> v.e - 1])
              ELSE IF d % 5 = 0 THEN Strip10([m |-> <<n * 2, d \div 5>>, e |-> v.e - 1])
              ELSE IF n % 10 = 0 THEN Strip10([m |-> <<n \div 10, d>>, e |-> v.e + 1])
              ELSE [m |-> QNorm(<<n, d>>), e |-> v.e]
LV(n, d, e) == Strip10([m |-> QNorm(<<n, d>>), e |-> e])
LMul(a, b) == Strip10([m |-> QMul(a.m, b.m), e |-> a.e + b.e])
LDiv(a, b) == Strip10([m |-> QDiv(a.m, b.m), e |-> a.e - b.e])
IsPow10(v) == v.m = QOne
\* IDEAL on the lattice: x = ref * 10^n in the counterpart  <=>  level = k*n bels
IdealLin(name, n) == LET r == LDef(name).ref IN LV(r[1], r[2], r[3] + n)
IdealLevelB(name, n) == KOf(LDef(name).fam) * n

\* library magnitude of the counterpart expression (its table magnitudes are powers of ten)
CpM10(cp) == LET F[i \in 0..Len(cp)] == IF i = 0 THEN 0 ELSE F[i - 1] + Units[UIdx(cp[i][1])].m10 * cp[i][2] IN F[Len(cp)]
CpM10ok(cp) == \A i \in 1..Len(cp) : UExists(cp[i][1]) /\ Units[UIdx(cp[i][1])].m10ok
\* MACHINE: LogarithmicUnitType._istype looks up "<first unit of side 1>_<first unit of side 2>"
MEntry(a, b) == IF \E i \in 1..Len(MLogTable) : MLogTable[i].a = a /\ MLogTable[i].b = b
                THEN MLogTable[CHOOSE i \in 1..Len(MLogTable) : MLogTable[i].a = a /\ MLogTable[i].b = b]
                ELSE [a |-> a, b |-> b, fn |-> "", k |-> <<0, 1>>, conv |-> <<1, 1, 0>>]
\* _convert_Ratio_B(value*mag1, exp, conv)/mag2 on x = IdealLin: -> [ok, level in bels as a rational]
MachLevelB(name, n) ==
  LET d == LDef(name)  t == MEntry(d.cp[1][1], name)
      v == LMul(LMul(IdealLin(name, n), LV(1, 1, CpM10(d.cp))), LV(t.conv[1], t.conv[2], t.conv[3]))
  IN IF t.fn # "RB" THEN [ok |-> FALSE, q |-> QZero]
     ELSE IF ~IsPow10(v) THEN [ok |-> FALSE, q |-> QZero]
     ELSE [ok |-> TRUE, q |-> QMul(t.k, <<v.e, 1>>)]              \* / mag2 = 1 for the un-prefixed bel unit
\* _convert_B_Ratio(level*mag1, exp, conv)/mag2 at level = k*n bels: -> [ok, linear value in the counterpart]
MachLin(name, n) ==
  LET d == LDef(name)  t == MEntry(name, d.cp[1][1])
      ex == QDiv(<<IdealLevelB(name, n), 1>>, t.k) IN
  IF t.fn # "BR" \/ t.k[1] = 0 THEN [ok |-> FALSE, v |-> LV(1, 1, 0)]
  ELSE IF ex[2] # 1 THEN [ok |-> FALSE, v |-> LV(1, 1, 0)]         \* off the lattice for this machine exponent
  ELSE [ok |-> TRUE, v |-> LDiv(LMul(LV(1, 1, ex[1]), LV(t.conv[1], t.conv[2], t.conv[3])), LV(1, 1, CpM10(d.cp)))]
\* derived offset between two dB-type units with the same counterpart, in bels:  k * log10(ref_a / ref_b)
IdealOffsetB(a, b) == LET r == LDiv(LV(LDef(a).ref[1], LDef(a).ref[2], LDef(a).ref[3]), LV(LDef(b).ref[1], LDef(b).ref[2], LDef(b).ref[3]))
                      IN [ok |-> IsPow10(r), q |-> KOf(LDef(a).fam) * r.e]
MachOffsetB(a, b) == LET t == MEntry(a, b) IN [ok |-> t.fn = "BB", q |-> t.k]
=============================================================================
