----------------------------- MODULE Composite -----------------------------
(***************************************************************************)
(* C11: number fractions x and mass fractions X of a composite.            *)
(*                                                                         *)
(* IDEAL (from the property text only).  A composite has components with   *)
(* amounts a_i and component masses m_i;                                   *)
(*      x_i = 100 a_i / SUM a        X_i = 100 a_i m_i / SUM a_j m_j       *)
(* The amounts are the given proportions p_i (a Substance: counts; a        *)
(* Material in number / number-fraction mode) or p_i / m_i (a Material     *)
(* given by mass fractions).                                               *)
(*                                                                         *)
(* OBLIGATIONS (term language of MatTerms / DESIGN 4.2) over what the      *)
(* harness observes on the real objects: normalisation to 100 %,           *)
(* proportionality, invariance under a common scaling of the proportions,  *)
(* duality number fractions <-> mass fractions; and the same again after    *)
(* every way the API changes or exposes a composite: add() of a component   *)
(* that is already there, a + b of composites with common components (the   *)
(* operands stay what they were), and a caller converting the quantities    *)
(* the object reports, in place, to other units.  The component masses      *)
(* enter as OBSERVED values (obs(A.m.i)); their correctness is C10.        *)
(*                                                                         *)
(* MACHINE: transcription of Composite._norm and Composite._data           *)
(* (proportion_norm, composite_mass, x, X per normalisation mode).         *)
(*                                                                         *)
(* TLC, on the rational model p_i in PVals, m_i in MVals, 1..MaxK          *)
(* components: every obligation holds of the ideal values and of the       *)
(* machine values (Sound), and whatever a named mutation of the machine     *)
(* reports that differs from the ideal values breaks an obligation (the    *)
(* obligations are not vacuous).  Every scenario is emitted for replay.    *)
(***************************************************************************)
EXTENDS MatTerms, FiniteSets, Json

CONSTANTS MaxK, PVals, MVals, Emit,
          Mutants       \* named mutations of the machine used for the non-vacuity check

Modes  == {"NUMBER", "NUMBER_FRACTION", "MASS_FRACTION"}
Scales == {<<2, 1>>, <<1, 2>>, <<5, 3>>}

---------------------------------------------------------------------------
\* ideal
Amount(mode, p, m) == IF mode = "MASS_FRACTION" THEN QDiv(p, m) ELSE p
IdealX(mode, ps, ms) ==        \* [x |-> <<..>>, X |-> <<..>>] in percent
  LET k  == Len(ps)
      a  == [i \in 1..k |-> Amount(mode, ps[i], ms[i])]
      sa == QSumSeq(a)
      am == [i \in 1..k |-> QMul(a[i], ms[i])]
      sm == QSumSeq(am)
  IN  [x |-> [i \in 1..k |-> QMul(QI(100), QDiv(a[i], sa))],
       X |-> [i \in 1..k |-> QMul(QI(100), QDiv(am[i], sm))]]

\* machine: Composite._norm / _data.
\*   ps    the proportions of the components now
\*   pn    the proportions at the last re-normalisation (= ps in the code as it is: add() always re-normalises)
\*   pert  the caller has converted the reported component masses, in place, to another unit (factor 1/1000)
MachX(mode, ps, pn, ms, pert, mut) ==
  LET k == Len(ps)
      psn == IF mut \in {"stale_norm", "operand_aliased"} THEN pn ELSE ps
      \* the component mass as the bare number it currently has (the code computes with unit-aware quantities)
      mm  == IF mut = "mass_unit_blind" /\ pert THEN [i \in 1..k |-> QDiv(ms[i], QI(1000))] ELSE ms
      massmode == mode = "MASS_FRACTION" /\ mut # "mass_mode_as_number"
      norm  == IF massmode
               THEN QSumSeq([i \in 1..k |-> QDiv(psn[i], mm[i])])         \* proportion_norm = sum p/m
               ELSE QSumSeq(psn)                                           \* proportion_norm = sum p
      cmass == IF massmode
               THEN QSumSeq(psn)                                           \* composite_mass = sum p (a bare number)
               ELSE IF mut = "X_wrong_sum" THEN QSumSeq(psn)
               ELSE QSumSeq([i \in 1..k |-> QMul(psn[i], ms[i])])        \* composite_mass = sum p m
      x(i) == IF massmode
              THEN QDiv(QDiv(ps[i], mm[i]), norm)
              ELSE IF mut = "x_unnormalised" THEN QDiv(ps[i], QI(100)) ELSE QDiv(ps[i], norm)
      X(i) == IF massmode
              THEN QDiv(ps[i], cmass)
              ELSE QDiv(QMul(ps[i], ms[i]), cmass)
  IN  [x |-> [i \in 1..k |-> QMul(QI(100), x(i))], X |-> [i \in 1..k |-> QMul(QI(100), X(i))]]

---------------------------------------------------------------------------
\* observation environment of one object named nm
ObjEnv(nm, ms, fr) ==
     EnvSeq("obs:" \o nm \o ".m.", ms, 1)
  @@ EnvSeq("obs:" \o nm \o ".x.", fr.x, 1) @@ EnvSeq("obs:" \o nm \o ".X.", fr.X, 1)
  @@ (("obs:" \o nm \o ".sum.x") :> QSumSeq(fr.x)) @@ (("obs:" \o nm \o ".sum.X") :> QSumSeq(fr.X))

\* obligations on one object whose proportions are the terms props[i]
SingleObl(nm, mode, props) ==
  LET k == Len(props)
      x(i) == Obs(nm \o ".x." \o IStr(i))    X(i) == Obs(nm \o ".X." \o IStr(i))
      p(i) == props[i]                        m(i) == Obs(nm \o ".m." \o IStr(i))
      SumOf(F(_)) == Sum([i \in 1..k |-> F(i)])
      RECURSIVE Per(_)
      Per(i) == IF i > k THEN <<>> ELSE
         (IF mode = "MASS_FRACTION"
          THEN << Approx("X~p", Mul(X(i), SumOf(p)), Mul(Q(100, 1), p(i))),
                  Approx("x~p/m", Mul(x(i), SumOf(LAMBDA j : Div(p(j), m(j)))), Mul(Q(100, 1), Div(p(i), m(i)))) >>
          ELSE << Approx("x~p", Mul(x(i), SumOf(p)), Mul(Q(100, 1), p(i))),
                  Approx("X~pm", Mul(X(i), SumOf(LAMBDA j : Mul(p(j), m(j)))), Mul(Q(100, 1), Mul(p(i), m(i)))) >>)
         \o Per(i + 1)
  IN  << Approx(nm \o ": sum x = 100", SumOf(x), Q(100, 1)), Approx(nm \o ": sum X = 100", SumOf(X), Q(100, 1)),
         Approx("row sum.x = 100", Obs(nm \o ".sum.x"), Q(100, 1)), Approx("row sum.X = 100", Obs(nm \o ".sum.X"), Q(100, 1)) >>
      \o Per(1)
\* two objects report the same fractions
SameObl(name, a, b, k) ==
  LET RECURSIVE Per(_)
      Per(i) == IF i > k THEN <<>> ELSE
                << Approx(name \o ": same x", Obs(b \o ".x." \o IStr(i)), Obs(a \o ".x." \o IStr(i))),
                   Approx(name \o ": same X", Obs(b \o ".X." \o IStr(i)), Obs(a \o ".X." \o IStr(i))) >> \o Per(i + 1)
  IN  Per(1)

(***************************************************************************)
(* The objects of a scenario, in the order in which the harness makes and  *)
(* observes them.  how:                                                    *)
(*   build    constructed from props, then steps (add(component i, q))     *)
(*   sum      of[1] + of[2]                                                *)
(*   sumc     of[1] + a single component object (an Element for a          *)
(*            Substance, a Substance for a Material) for component comp    *)
(*            with proportion q: the sum of different classes              *)
(*   perturb  the object of[1] after the caller converted every quantity   *)
(*            it reports, in place, to another unit                        *)
(*   again    the object of[1] observed once more (operands of a sum)      *)
(*   step     the object of[1] changed in place by steps, observed         *)
(* (a sum may have steps too: the RESULT is changed in place afterwards;   *)
(* pre are the proportions before the steps)                               *)
(* eff are the proportions the object then has (terms): what the           *)
(* obligations speak about; the object has the first Len(eff) components.  *)
(* form: "dict" | "text" (an expression string, proportions in any number  *)
(* spelling) | "" (the harness alternates).                                *)
(* sels: row selections (index lists) with which data_composite(components *)
(* = ...) is observed as well.  via = "reused_solver": the expression text *)
(* is solved by a MaterialSolver instance that has just rejected another   *)
(* expression.                                                             *)
(***************************************************************************)
Other(mode) == IF mode = "MASS_FRACTION" THEN "NUMBER_FRACTION" ELSE "MASS_FRACTION"
\* every non-empty selection of the components 1..n (in component order)
RECURSIVE Subseqs(_)
Subseqs(n) == IF n = 0 THEN << <<>> >> ELSE LET r == Subseqs(n - 1) IN r \o [i \in 1..Len(r) |-> Append(r[i], n)]
Selections(n) == Tail(Subseqs(n))
RECURSIVE SelId(_)
SelId(sel) == IF sel = <<>> THEN "" ELSE IStr(Head(sel)) \o SelId(Tail(sel))
\* a selected row is the row of the full table; the 'sum' row adds the selected rows
SelObl(nm, sels) ==
  LET one(sel) ==
        LET id == nm \o ".sel." \o SelId(sel)
            RECURSIVE Per(_)
            Per(r) == IF r > Len(sel) THEN <<>> ELSE
                      << Approx("selected row = row: x", Obs(id \o ".x." \o IStr(sel[r])), Obs(nm \o ".x." \o IStr(sel[r]))),
                         Approx("selected row = row: X", Obs(id \o ".X." \o IStr(sel[r])), Obs(nm \o ".X." \o IStr(sel[r]))) >> \o Per(r + 1)
        IN  Per(1) \o << Approx("selected sum x", Obs(id \o ".sum.x"), Sum([r \in 1..Len(sel) |-> Obs(nm \o ".x." \o IStr(sel[r]))])),
                          Approx("selected sum X", Obs(id \o ".sum.X"), Sum([r \in 1..Len(sel) |-> Obs(nm \o ".X." \o IStr(sel[r]))])) >>
      RECURSIVE All(_)
      All(j) == IF j > Len(sels) THEN <<>> ELSE one(sels[j]) \o All(j + 1)
  IN  All(1)
\* what the selections report: row of component sel[r]; a mutation reads the r-th entry instead
SelEnv(nm, fr, sels, mu) ==
  LET one(sel) ==
        LET id == "obs:" \o nm \o ".sel." \o SelId(sel)
            vx == [r \in 1..Len(sel) |-> IF mu = "selection_by_position" THEN fr.x[r] ELSE fr.x[sel[r]]]
            vX == [r \in 1..Len(sel) |-> IF mu = "selection_by_position" THEN fr.X[r] ELSE fr.X[sel[r]]]
            RECURSIVE Per(_)
            Per(r) == IF r > Len(sel) THEN <<>> ELSE
                      ((id \o ".x." \o IStr(sel[r])) :> vx[r]) @@ ((id \o ".X." \o IStr(sel[r])) :> vX[r]) @@ Per(r + 1)
        IN  Per(1) @@ ((id \o ".sum.x") :> QSumSeq(vx)) @@ ((id \o ".sum.X") :> QSumSeq(vX))
      RECURSIVE All(_)
      All(j) == IF j > Len(sels) THEN <<>> ELSE one(sels[j]) @@ All(j + 1)
  IN  All(1)
Obj(name, how, cls, mode, props, steps, of, eff) ==
  [name |-> name, how |-> how, cls |-> cls, mode |-> mode, props |-> props, steps |-> steps, of |-> of, eff |-> eff,
   form |-> "", comp |-> 0, q |-> Q(0, 1), pre |-> eff, sels |-> <<>>, via |-> ""]
Objects(sc, k) ==
  LET pA == [i \in 1..k |-> Inp("A.p." \o IStr(i))]
      pB == [i \in 1..k |-> Inp("B.p." \o IStr(i))]
      A  == Obj("A", "build", sc.cls, sc.mode, pA, <<>>, <<>>, pA)
      J  == IF sc.j = 1 THEN 1 ELSE k
  IN  CASE sc.kind = "single" -> <<A>>
        [] sc.kind = "scaled" ->
             LET ps == [i \in 1..k |-> Mul(pA[i], Q(sc.scale[1], sc.scale[2]))]
             IN  <<A, Obj("B", "build", sc.cls, sc.mode, ps, <<>>, <<>>, ps)>>
        [] sc.kind = "dual" ->
             LET pd == [i \in 1..k |-> IF sc.mode = "MASS_FRACTION" THEN Obs("A.x." \o IStr(i)) ELSE Obs("A.X." \o IStr(i))]
             IN  <<A, Obj("B", "build", "material", Other(sc.mode), pd, <<>>, <<>>, pd)>>
        [] sc.kind = "add_existing" ->           \* a component that is already there is topped up after construction
             << Obj("A", "build", sc.cls, sc.mode, pA, <<[i |-> J, q |-> Inp("A.q")]>>, <<>>,
                    [i \in 1..k |-> IF i = J THEN Add(pA[i], Inp("A.q")) ELSE pA[i]]) >>
        [] sc.kind = "sum_overlap" ->            \* a + b of two composites with the same components
             << A, Obj("B", "build", sc.cls, sc.mode, pB, <<>>, <<>>, pB),
                Obj("R", "sum", sc.cls, sc.mode, <<>>, <<>>, <<"A", "B">>, [i \in 1..k |-> Add(pA[i], pB[i])]),
                Obj("A2", "again", sc.cls, sc.mode, <<>>, <<>>, <<"A">>, pA),
                Obj("B2", "again", sc.cls, sc.mode, <<>>, <<>>, <<"B">>, pB) >>
        [] sc.kind = "perturbed" ->
             << A, Obj("P", "perturb", sc.cls, sc.mode, <<>>, <<>>, <<"A">>, pA) >>
        [] sc.kind = "sum_component" ->          \* composite + one component object, existing (j = 1) or new (j = 0)
             IF sc.j = 1
             THEN << A, [Obj("R", "sumc", sc.cls, sc.mode, <<>>, <<>>, <<"A">>,
                             [i \in 1..k |-> IF i = 1 THEN Add(pA[i], Inp("A.q")) ELSE pA[i]]) EXCEPT !.comp = 1, !.q = Inp("A.q")],
                     Obj("A2", "again", sc.cls, sc.mode, <<>>, <<>>, <<"A">>, pA) >>
             ELSE LET pS == SubSeq(pA, 1, k - 1)
                  IN  << Obj("A", "build", sc.cls, sc.mode, pS, <<>>, <<>>, pS),
                         [Obj("R", "sumc", sc.cls, sc.mode, <<>>, <<>>, <<"A">>, pA) EXCEPT !.comp = k, !.q = pA[k]],
                         Obj("A2", "again", sc.cls, sc.mode, <<>>, <<>>, <<"A">>, pS) >>
        \* A lacks the last component, B has all: R = A + B takes the last component from B.  Then the sum (j = 0)
        \* or the operand B (j = 1) is changed in place by add(last, q) and the other one is observed again.
        [] sc.kind = "sum_then_add" ->
             LET pS  == SubSeq(pA, 1, k - 1)
                 pR  == [i \in 1..k |-> IF i < k THEN Add(pA[i], pB[i]) ELSE pB[i]]
                 up(p) == [i \in 1..k |-> IF i = k THEN Add(p[i], Inp("A.q")) ELSE p[i]]
                 st  == <<[i |-> k, q |-> Inp("A.q")]>>
                 Aa  == Obj("A", "build", sc.cls, sc.mode, pS, <<>>, <<>>, pS)
                 Bb  == Obj("B", "build", sc.cls, sc.mode, pB, <<>>, <<>>, pB)
                 A2  == Obj("A2", "again", sc.cls, sc.mode, <<>>, <<>>, <<"A">>, pS)
             IN  IF sc.j = 0
                 THEN << Aa, Bb, [Obj("R", "sum", sc.cls, sc.mode, <<>>, st, <<"A", "B">>, up(pR)) EXCEPT !.pre = pR],
                         A2, Obj("B2", "again", sc.cls, sc.mode, <<>>, <<>>, <<"B">>, pB) >>
                 ELSE << Aa, Bb, Obj("R", "sum", sc.cls, sc.mode, <<>>, <<>>, <<"A", "B">>, pR),
                         [Obj("B3", "step", sc.cls, sc.mode, <<>>, st, <<"B">>, up(pB)) EXCEPT !.pre = pB],
                         A2, Obj("R2", "again", sc.cls, sc.mode, <<>>, <<>>, <<"R">>, pR) >>
        [] sc.kind = "selection" -> << [A EXCEPT !.sels = Selections(k)] >>
        [] sc.kind = "solver_reuse" -> << [A EXCEPT !.form = "text", !.via = "reused_solver"] >>
        [] sc.kind = "forms" ->                  \* the same material given as dict and as expression text
             << [A EXCEPT !.form = "dict"], [Obj("B", "build", sc.cls, sc.mode, pA, <<>>, <<>>, pA) EXCEPT !.form = "text"] >>
Obligations(sc, k) ==
  LET objs == Objects(sc, k)
      RECURSIVE Each(_)
      Each(i) == IF i > Len(objs) THEN <<>> ELSE SingleObl(objs[i].name, objs[i].mode, objs[i].eff) \o Each(i + 1)
  IN  Each(1)
      \o (CASE sc.kind = "scaled"      -> SameObl("scaling", "A", "B", k)
             [] sc.kind = "dual"        -> SameObl("duality", "A", "B", k)
             [] sc.kind = "sum_overlap" -> SameObl("operand unchanged", "A", "A2", k) \o SameObl("operand unchanged", "B", "B2", k)
             [] sc.kind = "perturbed"   -> SameObl("unit of a reported quantity changed", "A", "P", k)
             [] sc.kind = "sum_component" -> SameObl("operand unchanged", "A", "A2", Len(objs[1].eff))
             [] sc.kind = "forms"       -> SameObl("text form = dict form", "A", "B", k)
             [] sc.kind = "selection"   -> SelObl("A", objs[1].sels)
             [] sc.kind = "sum_then_add" ->
                  SameObl("operand unchanged", "A", "A2", k - 1)
                  \o (IF sc.j = 0 THEN SameObl("operand unchanged after the sum was changed", "B", "B2", k)
                      ELSE SameObl("sum unchanged after its operand was changed", "R", "R2", k))
             [] OTHER -> <<>>)

\* environment of a whole scenario; F(mode, ps, pn, ms, pert) yields the fractions (ideal or machine);
\* mu = "operand_aliased": a sum keeps the Component objects of its right operand, so an in-place change of the one
\* shows in the rows of the other while its norms stay
ScEnv(sc, ps, ms, F(_, _, _, _, _), mu) ==
  LET k    == Len(ps)
      objs == Objects(sc, k)
      inp  == EnvSeq("inp:A.p.", ps, 1) @@ EnvSeq("inp:B.p.", [i \in 1..k |-> ps[k + 1 - i]], 1) @@ ("inp:A.q" :> <<2, 1>>)
      RECURSIVE Go(_, _)
      Go(i, env) ==
        IF i > Len(objs) THEN env
        ELSE LET o   == objs[i]
                 eff == EvalSeq(o.eff, env)
                 \* the proportions in force when the norms were last derived, if add() of an existing
                 \* component did not re-derive them: before the step / after the first operand's components
                 pn  == IF o.steps # <<>> THEN EvalSeq(o.pre, env)
                        ELSE IF (o.how = "sum" \/ o.how = "sumc") /\ Len(o.eff) = Len(objs[1].eff) THEN EvalSeq(objs[1].eff, env)
                        ELSE eff
                 alias == mu = "operand_aliased" /\ sc.kind = "sum_then_add" /\ o.name \in {"B2", "R2"}
                 effx == IF alias THEN [n \in 1..Len(eff) |-> IF n = Len(eff) THEN QAdd(eff[n], <<2, 1>>) ELSE eff[n]] ELSE eff
                 mo  == SubSeq(ms, 1, Len(eff))
                 fr  == F(o.mode, effx, IF alias THEN eff ELSE pn, mo, o.how = "perturb")
             IN  Go(i + 1, env @@ ObjEnv(o.name, mo, fr) @@ SelEnv(o.name, fr, o.sels, mu))
  IN  Go(1, inp)

---------------------------------------------------------------------------
NoSc == [kind |-> "none", cls |-> "", mode |-> "", scale |-> <<1, 1>>, j |-> 0]
Scenarios ==
  LET cm == {<<"substance", "NUMBER">>} \cup {<<"material", md>> : md \in Modes}
      S(kd, c, s, j) == [kind |-> kd, cls |-> c[1], mode |-> c[2], scale |-> s, j |-> j]
  IN  {S("single", c, <<1, 1>>, 0) : c \in cm}
      \cup {S("scaled", c, s, 0) : c \in cm, s \in Scales}
      \cup {S("dual", <<"material", md>>, <<1, 1>>, 0) : md \in {"NUMBER_FRACTION", "MASS_FRACTION"}}
      \cup {S("add_existing", c, <<1, 1>>, j) : c \in cm, j \in {1, 2}}      \* the first / the last component
      \cup {S("sum_overlap", c, <<1, 1>>, 0) : c \in cm}
      \cup {S("perturbed", c, <<1, 1>>, 0) : c \in cm}
      \cup {S("sum_component", c, <<1, 1>>, j) : c \in cm, j \in {0, 1}}
      \cup {S("forms", <<"material", md>>, <<1, 1>>, 0) : md \in Modes}
      \cup {S("sum_then_add", c, <<1, 1>>, j) : c \in cm, j \in {0, 1}}
      \cup {S("selection", c, <<1, 1>>, 0) : c \in cm}
      \cup {S("solver_reuse", <<"material", md>>, <<1, 1>>, 0) : md \in Modes}

VARIABLES comps, sc
Init == comps = <<>> /\ sc = NoSc
Next == /\ sc = NoSc
        /\ \/ Len(comps) < MaxK /\ \E p \in PVals, m \in MVals : comps' = Append(comps, [p |-> p, m |-> m]) /\ UNCHANGED sc
           \/ Len(comps) >= 1 /\ \E s \in Scenarios : ((s.j = 2 \/ (s.kind = "sum_component" /\ s.j = 0) \/ s.kind = "sum_then_add") => Len(comps) >= 2) /\ sc' = s /\ UNCHANGED comps

Ps == [i \in 1..Len(comps) |-> QI(comps[i].p)]
Ms == [i \in 1..Len(comps) |-> QI(comps[i].m)]
Ideal5(md, ps, pn, ms, pert) == IdealX(md, ps, ms)
Mach5(md, ps, pn, ms, pert)  == MachX(md, ps, pn, ms, pert, "")

Tags(s, k) == {s.kind, s.cls, s.mode, "k" \o IStr(k)}
Record == [kind |-> sc.kind, cls |-> sc.cls, mode |-> sc.mode, k |-> Len(comps), scale |-> sc.scale, j |-> sc.j,
           p |-> [i \in 1..Len(comps) |-> comps[i].p], objects |-> Objects(sc, Len(comps)),
           obl |-> Obligations(sc, Len(comps)), tags |-> Tags(sc, Len(comps))]

Sound ==
  sc # NoSc =>
    LET os == Obligations(sc, Len(comps)) IN
    /\ AllHoldQ(os, ScEnv(sc, Ps, Ms, Ideal5, ""))             \* the obligations are theorems of the ideal formulas
    /\ AllHoldQ(os, ScEnv(sc, Ps, Ms, Mach5, ""))              \* and the transcribed algorithm satisfies them
    /\ \A mu \in Mutants :                                     \* whatever differs from the ideal values is noticed
          LET MutF(md, ps, pn, ms, pert) == MachX(md, ps, pn, ms, pert, mu)
              e == ScEnv(sc, Ps, Ms, MutF, mu)
          IN  e # ScEnv(sc, Ps, Ms, Ideal5, "") => ~AllHoldQ(os, e)
    \* one record per structure and proportion vector (the model masses do not reach the harness)
    /\ (Emit /\ \A i \in 1..Len(comps) : comps[i].m = ((i - 1) % Cardinality(MVals)) + 1) => PrintT(ToJson(Record))
=============================================================================
