----------------------------- MODULE Composite -----------------------------
(***************************************************************************)
(* C11: number fractions x and mass fractions X of a composite.            *)
(*                                                                         *)
(* IDEAL (from the property text only).  A composite has components with   *)
(* amounts a_i and component masses m_i;                                   *)
(*      x_i = 100 a_i / SUM a        X_i = 100 a_i m_i / SUM a_j m_j       *)
(* The amounts are the given proportions p_i (a Substance: counts; a        *)
(* Material in number / number-fraction mode) or p_i / m_i (a Material     *)
(* given by mass fractions).                                               *)
(*                                                                         *)
(* OBLIGATIONS (term language of MatTerms / DESIGN 4.2) over what the      *)
(* harness observes on the real objects: normalisation to 100 %,           *)
(* proportionality, invariance under a common scaling of the proportions,  *)
(* duality number fractions <-> mass fractions.  The component masses      *)
(* enter as OBSERVED values (obs(A.m.i)); their correctness is C10.        *)
(*                                                                         *)
(* MACHINE: transcription of Composite._norm and Composite._data           *)
(* (proportion_norm, composite_mass, x, X per normalisation mode).         *)
(*                                                                         *)
(* TLC, on the rational model p_i in PVals, m_i in MVals, 1..MaxK          *)
(* components: every obligation holds of the ideal values and of the       *)
(* machine values (Sound), and whatever a named mutation of the machine     *)
(* reports that differs from the ideal values breaks an obligation (the    *)
(* obligations are not vacuous).  Every scenario is emitted for replay.    *)
(***************************************************************************)
EXTENDS MatTerms, FiniteSets, Json

CONSTANTS MaxK, PVals, MVals, Emit,
          Mutants       \* named mutations of the machine used for the non-vacuity check

Modes  == {"NUMBER", "NUMBER_FRACTION", "MASS_FRACTION"}
Scales == {<<2, 1>>, <<1, 2>>, <<5, 3>>}

---------------------------------------------------------------------------
\* ideal
Amount(mode, p, m) == IF mode = "MASS_FRACTION" THEN QDiv(p, m) ELSE p
IdealX(mode, ps, ms) ==        \* [x |-> <<..>>, X |-> <<..>>] in percent
  LET k  == Len(ps)
      a  == [i \in 1..k |-> Amount(mode, ps[i], ms[i])]
      sa == QSumSeq(a)
      am == [i \in 1..k |-> QMul(a[i], ms[i])]
      sm == QSumSeq(am)
  IN  [x |-> [i \in 1..k |-> QMul(QI(100), QDiv(a[i], sa))],
       X |-> [i \in 1..k |-> QMul(QI(100), QDiv(am[i], sm))]]

\* machine: Composite._norm / _data
MachX(mode, ps, ms, mut) ==
  LET k == Len(ps)
      norm  == IF mode = "MASS_FRACTION" /\ mut # "mass_mode_as_number"
               THEN QSumSeq([i \in 1..k |-> QDiv(ps[i], ms[i])])           \* proportion_norm = sum p/m
               ELSE QSumSeq(ps)                                            \* proportion_norm = sum p
      cmass == IF mode = "MASS_FRACTION" /\ mut # "mass_mode_as_number"
               THEN QSumSeq(ps)                                            \* composite_mass = sum p (a bare number)
               ELSE IF mut = "X_wrong_sum" THEN QSumSeq(ps)
               ELSE QSumSeq([i \in 1..k |-> QMul(ps[i], ms[i])])          \* composite_mass = sum p m
      x(i) == IF mode = "MASS_FRACTION" /\ mut # "mass_mode_as_number"
              THEN QDiv(QDiv(ps[i], ms[i]), norm)
              ELSE IF mut = "x_unnormalised" THEN QDiv(ps[i], QI(100)) ELSE QDiv(ps[i], norm)
      X(i) == IF mode = "MASS_FRACTION" /\ mut # "mass_mode_as_number"
              THEN QDiv(ps[i], cmass)
              ELSE QDiv(QMul(ps[i], ms[i]), cmass)
  IN  [x |-> [i \in 1..k |-> QMul(QI(100), x(i))], X |-> [i \in 1..k |-> QMul(QI(100), X(i))]]

---------------------------------------------------------------------------
\* observation environment of one object named nm
ObjEnv(nm, ps, ms, fr) ==
     EnvSeq("obs:" \o nm \o ".m.", ms, 1)
  @@ EnvSeq("obs:" \o nm \o ".x.", fr.x, 1) @@ EnvSeq("obs:" \o nm \o ".X.", fr.X, 1)
  @@ (("obs:" \o nm \o ".sum.x") :> QSumSeq(fr.x)) @@ (("obs:" \o nm \o ".sum.X") :> QSumSeq(fr.X))

\* obligations on one object whose given proportions are the terms props[i]
SingleObl(nm, mode, props) ==
  LET k == Len(props)
      x(i) == Obs(nm \o ".x." \o IStr(i))    X(i) == Obs(nm \o ".X." \o IStr(i))
      p(i) == props[i]                        m(i) == Obs(nm \o ".m." \o IStr(i))
      SumOf(F(_)) == Sum([i \in 1..k |-> F(i)])
      RECURSIVE Per(_)
      Per(i) == IF i > k THEN <<>> ELSE
         (IF mode = "MASS_FRACTION"
          THEN << Approx("X~p", Mul(X(i), SumOf(p)), Mul(Q(100, 1), p(i))),
                  Approx("x~p/m", Mul(x(i), SumOf(LAMBDA j : Div(p(j), m(j)))), Mul(Q(100, 1), Div(p(i), m(i)))) >>
          ELSE << Approx("x~p", Mul(x(i), SumOf(p)), Mul(Q(100, 1), p(i))),
                  Approx("X~pm", Mul(X(i), SumOf(LAMBDA j : Mul(p(j), m(j)))), Mul(Q(100, 1), Mul(p(i), m(i)))) >>)
         \o Per(i + 1)
  IN  << Approx("sum x = 100", SumOf(x), Q(100, 1)), Approx("sum X = 100", SumOf(X), Q(100, 1)),
         Approx("row sum.x = 100", Obs(nm \o ".sum.x"), Q(100, 1)), Approx("row sum.X = 100", Obs(nm \o ".sum.X"), Q(100, 1)) >>
      \o Per(1)
\* two objects report the same fractions
SameObl(name, a, b, k) ==
  LET RECURSIVE Per(_)
      Per(i) == IF i > k THEN <<>> ELSE
                << Approx(name \o ": same x", Obs(b \o ".x." \o IStr(i)), Obs(a \o ".x." \o IStr(i))),
                   Approx(name \o ": same X", Obs(b \o ".X." \o IStr(i)), Obs(a \o ".X." \o IStr(i))) >> \o Per(i + 1)
  IN  Per(1)

\* the objects of a scenario: how B's proportions derive from A
Other(mode) == IF mode = "MASS_FRACTION" THEN "NUMBER_FRACTION" ELSE "MASS_FRACTION"
Objects(sc, k) ==
  LET A == [name |-> "A", cls |-> sc.cls, mode |-> sc.mode, props |-> [i \in 1..k |-> Inp("A.p." \o IStr(i))]]
  IN  CASE sc.kind = "single" -> <<A>>
        [] sc.kind = "scaled" -> <<A, [name |-> "B", cls |-> sc.cls, mode |-> sc.mode,
                                       props |-> [i \in 1..k |-> Mul(Inp("A.p." \o IStr(i)), Q(sc.scale[1], sc.scale[2]))]]>>
        [] sc.kind = "dual"   -> <<A, [name |-> "B", cls |-> "material", mode |-> Other(sc.mode),
                                       props |-> [i \in 1..k |-> IF sc.mode = "MASS_FRACTION" THEN Obs("A.x." \o IStr(i))
                                                                  ELSE Obs("A.X." \o IStr(i))]]>>
Obligations(sc, k) ==
  LET objs == Objects(sc, k) IN
  SingleObl("A", sc.mode, objs[1].props)
  \o (IF sc.kind = "scaled" THEN SingleObl("B", sc.mode, objs[2].props) \o SameObl("scaling", "A", "B", k)
      ELSE IF sc.kind = "dual" THEN SingleObl("B", Other(sc.mode), objs[2].props) \o SameObl("duality", "A", "B", k)
      ELSE <<>>)

\* environment of a whole scenario; F(mode, ps, ms) yields the fractions (ideal or machine)
ScEnv(sc, ps, ms, F(_, _, _)) ==
  LET k    == Len(ps)
      objs == Objects(sc, k)
      inA  == EnvSeq("inp:A.p.", ps, 1)
      eA   == inA @@ ObjEnv("A", ps, ms, F(sc.mode, ps, ms))
  IN  IF Len(objs) = 1 THEN eA
      ELSE LET pB == EvalSeq(objs[2].props, eA)
           IN  eA @@ ObjEnv("B", pB, ms, F(objs[2].mode, pB, ms))

---------------------------------------------------------------------------
NoSc == [kind |-> "none", cls |-> "", mode |-> "", scale |-> <<1, 1>>]
Scenarios ==
  LET cm == {<<"substance", "NUMBER">>} \cup {<<"material", md>> : md \in Modes}
  IN  {[kind |-> "single", cls |-> c[1], mode |-> c[2], scale |-> <<1, 1>>] : c \in cm}
      \cup {[kind |-> "scaled", cls |-> c[1], mode |-> c[2], scale |-> s] : c \in cm, s \in Scales}
      \cup {[kind |-> "dual", cls |-> "material", mode |-> md, scale |-> <<1, 1>>] : md \in {"NUMBER_FRACTION", "MASS_FRACTION"}}

VARIABLES comps, sc
Init == comps = <<>> /\ sc = NoSc
Next == /\ sc = NoSc
        /\ \/ Len(comps) < MaxK /\ \E p \in PVals, m \in MVals : comps' = Append(comps, [p |-> p, m |-> m]) /\ UNCHANGED sc
           \/ Len(comps) >= 1 /\ \E s \in Scenarios : sc' = s /\ UNCHANGED comps

Ps == [i \in 1..Len(comps) |-> QI(comps[i].p)]
Ms == [i \in 1..Len(comps) |-> QI(comps[i].m)]
Ideal3(md, ps, ms) == IdealX(md, ps, ms)
Mach3(md, ps, ms)  == MachX(md, ps, ms, "")

Tags(s, k) == {s.kind, s.cls, s.mode, "k" \o IStr(k)}
Record == [kind |-> sc.kind, cls |-> sc.cls, mode |-> sc.mode, k |-> Len(comps), scale |-> sc.scale,
           p |-> [i \in 1..Len(comps) |-> comps[i].p], objects |-> Objects(sc, Len(comps)),
           obl |-> Obligations(sc, Len(comps)), tags |-> Tags(sc, Len(comps))]

Sound ==
  sc # NoSc =>
    LET os == Obligations(sc, Len(comps)) IN
    /\ AllHoldQ(os, ScEnv(sc, Ps, Ms, Ideal3))                 \* the obligations are theorems of the ideal formulas
    /\ AllHoldQ(os, ScEnv(sc, Ps, Ms, Mach3))                  \* and the transcribed algorithm satisfies them
    /\ \A mu \in Mutants :                                     \* whatever differs from the ideal values is noticed
          LET MutF(md, ps, ms) == MachX(md, ps, ms, mu)
              e == ScEnv(sc, Ps, Ms, MutF)
          IN  e # ScEnv(sc, Ps, Ms, Ideal3) => ~AllHoldQ(os, e)
    \* one record per structure and proportion vector (the model masses do not reach the harness)
    /\ (Emit /\ \A i \in 1..Len(comps) : comps[i].m = ((i - 1) % Cardinality(MVals)) + 1) => PrintT(ToJson(Record))
=============================================================================
