------------------------------ MODULE Formula ------------------------------
(***************************************************************************)
(* What property C10 says a molecular formula means.  Nothing here refers  *)
(* to how scinumtools.materials computes it.                               *)
(*                                                                         *)
(* A formula is a sequence of ITEMS.  An item is a species (a variable     *)
(* that the harness later binds to a real element/isotope/ion/nucleon) or  *)
(* a parenthesised group of items, with an optional multiplier.  Notation  *)
(* is part of the tree, because the property quantifies over it:           *)
(*   mn   how the multiplier is written   "-" none | "i" X2 | "e" X * 2    *)
(*   sep  what separates the item from    "-" first item | "t" nothing     *)
(*        its left sibling                | "b" a blank | "p" explicit + | *)
(*                                                                         *)
(*   Expand      the bag species -> count                                  *)
(*   PrintAst    the token string of a tree                                *)
(*   ParseIdeal  the documented grammar as a recursive-descent parser      *)
(*               formula ::= term { [" + " | " "] term }                   *)
(*               term    ::= ( species | "(" formula ")" ) [ n | " * " n ] *)
(*   per-species integers Z, N, e from the isotope table (generated from   *)
(*   the live periodic table into FormulaTables.tla), masses as terms      *)
(***************************************************************************)
EXTENDS Integers, Sequences, FiniteSets, TLC, MatTerms, FormulaTables

CONSTANTS Vars,     \* species variables, e.g. {"a", "b"}
          Mults     \* multipliers that may be written (all > 1), e.g. {2, 3, 12}

PLUS  == " + "
TIMES == " * "
BLANK == " "
OPEN  == "("
CLOSE == ")"
NumTok(n) == ToString(n)
NumToks   == {NumTok(n) : n \in Mults}
NumVal(t) == CHOOSE n \in Mults : NumTok(n) = t

Sp(v, m, mn, sep)     == [k |-> "s", v |-> v,  m |-> m, mn |-> mn, sep |-> sep, items |-> <<>>]
Gr(items, m, mn, sep) == [k |-> "g", v |-> "", m |-> m, mn |-> mn, sep |-> sep, items |-> items]

---------------------------------------------------------------------------
\* bags: total functions Vars -> Nat
BZero        == [v \in Vars |-> 0]
BUnit(x)     == [v \in Vars |-> IF v = x THEN 1 ELSE 0]
BAdd(a, b)   == [v \in Vars |-> a[v] + b[v]]
BScale(n, a) == [v \in Vars |-> n * a[v]]
BSize(a)     == LET RECURSIVE S(_)
                    S(vs) == IF vs = {} THEN 0 ELSE LET v == CHOOSE x \in vs : TRUE IN a[v] + S(vs \ {v})
                IN  S(Vars)

RECURSIVE Expand(_)
ExpandItem(it) == IF it.k = "s" THEN BScale(it.m, BUnit(it.v)) ELSE BScale(it.m, Expand(it.items))
Expand(items)  == IF items = <<>> THEN BZero ELSE BAdd(ExpandItem(Head(items)), Expand(Tail(items)))

\* an independent count of atoms: every species occurrence times the product of the multipliers above it
RECURSIVE AtomCount(_, _)
AtomCount(items, f) ==
  IF items = <<>> THEN 0
  ELSE LET it == Head(items)
       IN  (IF it.k = "s" THEN f * it.m ELSE AtomCount(it.items, f * it.m)) + AtomCount(Tail(items), f)

\* multipliers pushed down to the leaves: a flat list of <<variable, count>>
RECURSIVE Flatten(_, _)
Flatten(items, f) ==
  IF items = <<>> THEN <<>>
  ELSE LET it == Head(items)
       IN  (IF it.k = "s" THEN << <<it.v, f * it.m>> >> ELSE Flatten(it.items, f * it.m)) \o Flatten(Tail(items), f)
RECURSIVE BagOfFlat(_)
BagOfFlat(fl) == IF fl = <<>> THEN BZero ELSE BAdd(BScale(Head(fl)[2], BUnit(Head(fl)[1])), BagOfFlat(Tail(fl)))

---------------------------------------------------------------------------
\* printing
SepToks(it)  == CASE it.sep = "b" -> <<BLANK>> [] it.sep = "p" -> <<PLUS>> [] OTHER -> <<>>
MultToks(it) == IF it.m = 1 THEN <<>> ELSE IF it.mn = "e" THEN <<TIMES, NumTok(it.m)>> ELSE <<NumTok(it.m)>>
RECURSIVE PrintAst(_)
PrintItem(it) == SepToks(it) \o (IF it.k = "s" THEN <<it.v>> ELSE <<OPEN>> \o PrintAst(it.items) \o <<CLOSE>>) \o MultToks(it)
PrintAst(items)  == IF items = <<>> THEN <<>> ELSE PrintItem(Head(items)) \o PrintAst(Tail(items))

---------------------------------------------------------------------------
\* the documented grammar
PFail == [ok |-> FALSE, items |-> <<>>, item |-> <<>>, rest |-> <<>>]
WithMult(it, s) ==
  IF s # <<>> /\ Head(s) \in NumToks
  THEN [ok |-> TRUE, items |-> <<>>, item |-> [it EXCEPT !.m = NumVal(Head(s)), !.mn = "i"], rest |-> Tail(s)]
  ELSE IF Len(s) >= 2 /\ s[1] = TIMES /\ s[2] \in NumToks
  THEN [ok |-> TRUE, items |-> <<>>, item |-> [it EXCEPT !.m = NumVal(s[2]), !.mn = "e"], rest |-> Tail(Tail(s))]
  ELSE [ok |-> TRUE, items |-> <<>>, item |-> it, rest |-> s]

RECURSIVE PSeq(_, _), PTerm(_, _)
PTerm(s, first) ==
  LET sep == IF first THEN "-" ELSE IF Head(s) = PLUS THEN "p" ELSE IF Head(s) = BLANK THEN "b" ELSE "t"
      s1  == IF sep \in {"p", "b"} THEN Tail(s) ELSE s
  IN  IF s1 = <<>> THEN PFail
      ELSE IF Head(s1) \in Vars THEN WithMult(Sp(Head(s1), 1, "-", sep), Tail(s1))
      ELSE IF Head(s1) = OPEN THEN
           LET g == PSeq(Tail(s1), <<>>)
           IN  IF g.ok /\ g.rest # <<>> /\ Head(g.rest) = CLOSE
               THEN WithMult(Gr(g.items, 1, "-", sep), Tail(g.rest)) ELSE PFail
      ELSE PFail
\* one sibling list: up to the end of the input or an unmatched ")"
PSeq(s, acc) ==
  IF s = <<>> \/ Head(s) = CLOSE
  THEN (IF acc = <<>> THEN PFail ELSE [ok |-> TRUE, items |-> acc, item |-> <<>>, rest |-> s])
  ELSE LET t == PTerm(s, acc = <<>>) IN IF t.ok THEN PSeq(t.rest, Append(acc, t.item)) ELSE PFail

\* Parses(s): s is a formula of the grammar; ParseIdeal(s): its tree (<<>> when it is none)
Parses(s)     == LET r == PSeq(s, <<>>) IN r.ok /\ r.rest = <<>>
ParseIdeal(s) == LET r == PSeq(s, <<>>) IN IF r.ok /\ r.rest = <<>> THEN r.items ELSE <<>>

---------------------------------------------------------------------------
\* structure predicates
RECURSIVE SibLists(_)
SibLists(items) == {items} \cup UNION {SibLists(items[i].items) : i \in {j \in 1..Len(items) : items[j].k = "g"}}
Pairs(ast) == UNION {{<<l[i], l[i + 1]>> : i \in 1..(Len(l) - 1)} : l \in SibLists(ast)}
AllItems(ast) == UNION {{l[i] : i \in 1..Len(l)} : l \in SibLists(ast)}

RECURSIVE Depth(_)
MaxOf(S) == IF S = {} THEN 0 ELSE CHOOSE x \in S : \A y \in S : y <= x
Depth(items) == MaxOf({IF items[i].k = "g" THEN 1 + Depth(items[i].items) ELSE 0 : i \in 1..Len(items)})
NSpecies(ast) == Len(Flatten(ast, 1))

WF(ast) == \A l \in SibLists(ast) :
              /\ l # <<>>
              /\ \A i \in 1..Len(l) : /\ (l[i].sep = "-") = (i = 1)
                                      /\ (l[i].m = 1) = (l[i].mn = "-")
                                      /\ l[i].m = 1 \/ l[i].m \in Mults
                                      /\ l[i].k = "s" => l[i].v \in Vars

\* A number written out with " * " and directly followed by a juxtaposed term ("Ca * 2 O", "Ca * 2O")
\* reads both as the count of what precedes and as a coefficient of what follows: not decided by the
\* documentation, excluded from verdicts.
Unspecified(ast) == \E p \in Pairs(ast) : p[1].m > 1 /\ p[1].mn = "e" /\ p[2].sep # "p"

\* feature predicates used as tags (known findings are matched on them)
GroupMultThenGroup(ast) == \E p \in Pairs(ast) : p[1].k = "g" /\ p[1].m > 1 /\ p[1].mn = "i" /\ p[2].k = "g"
GroupMultThenPlus(ast)  == \E p \in Pairs(ast) : p[1].k = "g" /\ p[1].m > 1 /\ p[1].mn = "i" /\ p[2].sep = "p"
Features(ast) ==
     (IF GroupMultThenGroup(ast) THEN {"group_mult_then_group"} ELSE {})
  \cup (IF GroupMultThenPlus(ast) THEN {"group_mult_then_plus"} ELSE {})
  \cup (IF \E it \in AllItems(ast) : it.mn = "e" THEN {"explicit_mul"} ELSE {})
  \cup (IF \E it \in AllItems(ast) : it.sep = "p" THEN {"explicit_add"} ELSE {})
  \cup (IF \E it \in AllItems(ast) : it.sep = "b" THEN {"blank"} ELSE {})
  \cup (IF \E it \in AllItems(ast) : it.k = "g" /\ it.m > 1 THEN {"group_mult"} ELSE {})
  \cup (LET fl == Flatten(ast, 1) IN IF \E i, j \in 1..Len(fl) : i < j /\ fl[i][1] = fl[j][1] THEN {"repeated_species"} ELSE {})
  \cup {"depth" \o ToString(Depth(ast))}

---------------------------------------------------------------------------
\* the lemmas of the ideal (checked by TLC on every enumerated tree)
Lemmas(ast) ==
  /\ WF(ast)
  /\ Parses(PrintAst(ast)) /\ ParseIdeal(PrintAst(ast)) = ast                                    \* printing is injective, the grammar recovers the tree
  /\ Expand(ast) = BagOfFlat(Flatten(ast, 1))                        \* multipliers distribute down to the leaves
  /\ BSize(Expand(ast)) = AtomCount(ast, 1)
  /\ \A i \in 1..(Len(ast) - 1) :                                    \* addition of sub-formulas is bag union
        Expand(ast) = BAdd(Expand(SubSeq(ast, 1, i)), Expand(SubSeq(ast, i + 1, Len(ast))))
  /\ \A it \in AllItems(ast) : it.k = "g" =>                         \* a multiplied group is the scaled group
        Expand(<<it>>) = BScale(it.m, Expand(it.items))
  /\ \A n \in Mults : Expand(<<Gr(ast, n, "i", "-")>>) = BScale(n, Expand(ast))   \* a * n acts on every count

---------------------------------------------------------------------------
(***************************************************************************)
(* Per-species data.  A species binding is a record                        *)
(*    [el, A, ion, nuc, alias, aliasfull]                                  *)
(*        A = 0: isotope not specified; nuc in "" p n e;                   *)
(*        alias in "" D T: hydrogen-2/-3 written with its own symbol,      *)
(*        aliasfull: the suffix repeats the mass number (D{2-1})           *)
(* PT (module FormulaTables) is el -> [Z, iso: <<[A, ab]>>] with ab the     *)
(* natural abundance in units of 1e-8.  Z, e are integers, N an integer or *)
(* (natural mean) a term over the abundance table, masses always terms.    *)
(***************************************************************************)
NUC == [p |-> [Z |-> 1, N |-> 0, e |-> 0], n |-> [Z |-> 0, N |-> 1, e |-> 0], e |-> [Z |-> 0, N |-> 0, e |-> 1]]

Isos(el)  == PT[el].iso
RECURSIVE AbSumFrom(_, _)
AbSumFrom(is, i) == IF i > Len(is) THEN 0 ELSE is[i].ab + AbSumFrom(is, i + 1)
AbSum(el) == AbSumFrom(Isos(el), 1)
IsMaxIdx(el, i) == \A j \in 1..Len(Isos(el)) : j # i => Isos(el)[j].ab < Isos(el)[i].ab
AbundantDefined(el) == AbSum(el) > 0 /\ \E i \in 1..Len(Isos(el)) : IsMaxIdx(el, i)
AbundantA(el) == Isos(el)[CHOOSE i \in 1..Len(Isos(el)) : IsMaxIdx(el, i)].A
HasIso(el, A) == \E i \in 1..Len(Isos(el)) : Isos(el)[i].A = A

SpValid(sp) == \/ sp.nuc \in {"p", "n", "e"} /\ sp.alias = ""
               \/ /\ sp.nuc = "" /\ sp.el \in DOMAIN PT /\ (sp.A = 0 \/ HasIso(sp.el, sp.A))
                  /\ sp.alias \in {"", "D", "T"}
                  /\ sp.alias = "D" => (sp.el = "H" /\ sp.A = 2)
                  /\ sp.alias = "T" => (sp.el = "H" /\ sp.A = 3)
\* feature predicates of a species binding (tags)
SpFeatures(sp, natural) ==
  IF sp.nuc # "" THEN {"nucleon"}
  ELSE (IF sp.ion # 0 THEN {"charged"} ELSE {})
       \cup (IF sp.A # 0 THEN {"isotope"} ELSE IF natural THEN {"natural_mean"} ELSE {"most_abundant"})
       \cup (IF sp.alias # "" THEN {"named_isotope"} ELSE {})
       \cup (IF sp.alias # "" /\ sp.ion # 0 /\ ~sp.aliasfull THEN {"named_isotope_charge_only"} ELSE {})
\* "the abundance-weighted mean" / "the most abundant isotope" of an element without natural abundances
\* (or with a tie) is not defined
SpUnspecified(sp, natural) ==
  sp.nuc = "" /\ sp.A = 0 /\ (IF natural THEN AbSum(sp.el) = 0 ELSE ~AbundantDefined(sp.el))

ME == Tab("unit", "[m_e]", "Da")
IsoMass(el, A, ion) == IF ion = 0 THEN Tab("mass", el, ToString(A))
                       ELSE Add(Tab("mass", el, ToString(A)), Mul(Q(ion, 1), ME))
WMean(el, F(_)) == LET is == Isos(el)
                   IN  Div(Sum([i \in 1..Len(is) |-> Mul(Tab("ab", el, ToString(is[i].A)), F(is[i].A))]),
                           Sum([i \in 1..Len(is) |-> Tab("ab", el, ToString(is[i].A))]))

\* Nint = -1 when N is not an integer (natural mean)
SpData(sp, natural) ==
  IF sp.nuc # "" THEN
     [Z |-> NUC[sp.nuc].Z, e |-> NUC[sp.nuc].e, Nint |-> NUC[sp.nuc].N, N |-> Q(NUC[sp.nuc].N, 1), A |-> 0,
      mass |-> Tab("unit", "[m_" \o sp.nuc \o "]", "Da")]
  ELSE LET Z == PT[sp.el].Z
           A == IF sp.A # 0 THEN sp.A ELSE IF natural THEN 0 ELSE AbundantA(sp.el)
       IN  IF A # 0
           THEN [Z |-> Z, e |-> Z + sp.ion, Nint |-> A - Z, N |-> Q(A - Z, 1), A |-> A, mass |-> IsoMass(sp.el, A, sp.ion)]
           ELSE [Z |-> Z, e |-> Z + sp.ion, Nint |-> -1, A |-> 0,
                 N    |-> WMean(sp.el, LAMBDA a : Q(a - Z, 1)),
                 mass |-> WMean(sp.el, LAMBDA a : IsoMass(sp.el, a, sp.ion))]

Used(bag) == {v \in Vars : bag[v] > 0}
RECURSIVE SeqOf(_)
SeqOf(vs) == IF vs = {} THEN <<>> ELSE LET v == CHOOSE x \in vs : TRUE IN <<v>> \o SeqOf(vs \ {v})
RECURSIVE ISumSeq(_)
ISumSeq(s) == IF s = <<>> THEN 0 ELSE Head(s) + ISumSeq(Tail(s))
=============================================================================
