------------------------------- MODULE Solver -------------------------------
(***************************************************************************)
(* One ExpressionSolver instance as a state machine over call histories.   *)
(* Small-step: one action per block of solve() / Tokens.operate that       *)
(* changes Tokens.left / Tokens.right, and a Raise wherever Python can     *)
(* raise.  The lists persist from call to call exactly as in the code;     *)
(* ResetOnBegin says whether solve() clears them when it starts (the code  *)
(* before the fix: FALSE, after it: TRUE).                                 *)
(*                                                                         *)
(* Properties                                                              *)
(*   C02  Independent : whenever the instance is idle, every expression    *)
(*        of the universe would give the same outcome as on a fresh        *)
(*        instance.                                                        *)
(*   C01  Refines (in SolverGen) : outcome of a fresh solve = Ideal.       *)
(*   SmallBig : the small-step machine and the big-step functions of       *)
(*        SolverMachine agree on every finished call.                      *)
(***************************************************************************)
EXTENDS SolverMachine, TLC

CONSTANTS Exprs,          \* universe of token strings the environment may pass to solve()
          Probes,         \* expressions on which Independent probes an idle instance
          ResetOnBegin,   \* BOOLEAN
          Plans           \* set of call histories (sequences over Exprs) to explore

VARIABLES left, right,    \* Tokens.left, Tokens.right of THE instance
          pc,             \* "new" | "idle" | "tok" | "steps" | "loop"
          inp, pos, buf,  \* expression being tokenised, scan position, pending atom text
          stepi,          \* index into Steps
          out,            \* outcome of the last finished call (Polish tree or marker)
          l0, r0,         \* list contents when the running call began (after the optional reset)
          ncalls,
          plan,           \* the history being played: sequence of expressions
          outs            \* outcomes of the finished calls

vars == <<left, right, pc, inp, pos, buf, stepi, out, l0, r0, ncalls, plan, outs>>

Init == /\ left = <<>> /\ right = <<>> /\ pc = "new" /\ inp = <<>> /\ pos = 1 /\ buf = <<>>
        /\ stepi = 1 /\ out = <<"#init">> /\ l0 = <<>> /\ r0 = <<>> /\ ncalls = 0
        /\ plan = <<>> /\ outs = <<>>

\* the environment decides which history it is going to play on the new instance
ChoosePlan == /\ pc = "new" /\ plan' \in Plans /\ pc' = "idle"
              /\ UNCHANGED <<left, right, inp, pos, buf, stepi, out, l0, r0, ncalls, outs>>

Begin(s) ==
  /\ pc = "idle"
  /\ pc' = "tok" /\ inp' = s /\ pos' = 1 /\ buf' = <<>> /\ stepi' = 1
  /\ left'  = IF ResetOnBegin THEN <<>> ELSE left
  /\ right' = IF ResetOnBegin THEN <<>> ELSE right
  /\ l0' = left' /\ r0' = right'
  /\ ncalls' = ncalls + 1
  /\ UNCHANGED <<out, plan, outs>>

Raise == /\ pc' = "idle" /\ out' = MERR /\ outs' = Append(outs, MERR)
         /\ UNCHANGED <<inp, pos, buf, stepi, l0, r0, ncalls, plan>>

\* a token that is not an operator of the table: expr.shift()
TokText ==
  /\ pc = "tok" /\ pos <= Len(inp) /\ ~IsOperatorTok(inp[pos])
  /\ buf' = Append(buf, inp[pos]) /\ pos' = pos + 1
  /\ UNCHANGED <<left, right, pc, inp, stepi, out, l0, r0, ncalls, plan, outs>>

\* pending text -> atom : [ok, right] ; the constructor may raise
Flush(r) == IF buf = <<>> THEN [ok |-> TRUE, r |-> r]
            ELSE LET a == AtomOf(buf) IN IF a.k = "n" THEN [ok |-> FALSE, r |-> r]
                                         ELSE [ok |-> TRUE, r |-> Append(r, a)]

\* an operator symbol without arguments
TokOp ==
  /\ pc = "tok" /\ pos <= Len(inp) /\ IsOperatorTok(inp[pos]) /\ inp[pos] \notin MOpenToks
  /\ LET f == Flush(right) IN
     IF f.ok THEN /\ right' = Append(f.r, O(inp[pos])) /\ buf' = <<>> /\ pos' = pos + 1
                  /\ UNCHANGED <<left, pc, inp, stepi, out, l0, r0, ncalls, plan, outs>>
     ELSE /\ right' = f.r /\ UNCHANGED left /\ Raise

\* a parenthesis operator: consume up to the matching close, solve the arguments on a nested solver
TokOpen ==
  /\ pc = "tok" /\ pos <= Len(inp) /\ IsOperatorTok(inp[pos]) /\ inp[pos] \in MOpenToks
  /\ LET f == Flush(right)
         j == CloseIdx(inp, pos + 1, 1)
         args == SplitArgs(inp, pos + 1, j, 1, <<>>)
         sa == SolveArgs(args, <<>>)
     IN IF ~f.ok THEN /\ right' = f.r /\ UNCHANGED left /\ Raise
        ELSE IF j = 0 \/ Len(args) # MNArg(inp[pos]) \/ sa.err
             THEN /\ right' = f.r /\ UNCHANGED left /\ Raise
        ELSE /\ right' = Append(f.r, F(inp[pos], sa.items)) /\ buf' = <<>> /\ pos' = j + 1
             /\ UNCHANGED <<left, pc, inp, stepi, out, l0, r0, ncalls, plan, outs>>

TokEnd ==
  /\ pc = "tok" /\ pos > Len(inp)
  /\ LET f == Flush(right) IN
     IF f.ok THEN /\ right' = f.r /\ buf' = <<>> /\ pc' = "steps" /\ stepi' = 1
                  /\ UNCHANGED <<left, inp, pos, out, l0, r0, ncalls, plan, outs>>
     ELSE /\ right' = f.r /\ UNCHANGED left /\ Raise

\* a step none of whose operators is in the table is skipped
StepSkip ==
  /\ pc = "steps" /\ stepi <= Len(Steps) /\ StepOps(stepi) = {}
  /\ stepi' = stepi + 1
  /\ UNCHANGED <<left, right, pc, inp, pos, buf, out, l0, r0, ncalls, plan, outs>>

StepBegin ==
  /\ pc = "steps" /\ stepi <= Len(Steps) /\ StepOps(stepi) # {}
  /\ pc' = "loop"
  /\ UNCHANGED <<left, right, inp, pos, buf, stepi, out, l0, r0, ncalls, plan, outs>>

\* one iteration of `while self.right`
LoopDispatch ==
  /\ pc = "loop" /\ right # <<>>
  /\ LET d == Dispatch(left, right, StepOps(stepi), Steps[stepi].otype) IN
     /\ left' = d.l /\ right' = d.r
     /\ IF d.err THEN Raise ELSE UNCHANGED <<pc, inp, pos, buf, stepi, out, l0, r0, ncalls, plan, outs>>

\* self.right = self.left ; self.left = []
LoopEnd ==
  /\ pc = "loop" /\ right = <<>>
  /\ right' = left /\ left' = <<>> /\ pc' = "steps" /\ stepi' = stepi + 1
  /\ UNCHANGED <<inp, pos, buf, out, l0, r0, ncalls, plan, outs>>

\* the final test and get_right()
Return ==
  /\ pc = "steps" /\ stepi > Len(Steps)
  /\ IF Len(left) > 0 \/ Len(right) > 1
     THEN /\ UNCHANGED <<left, right>> /\ Raise
     ELSE LET g == GetRight(right) IN
          /\ right' = g.r /\ UNCHANGED left /\ pc' = "idle"
          /\ out' = Outcome([err |-> FALSE, v |-> g.v])
          /\ outs' = Append(outs, out')
          /\ UNCHANGED <<inp, pos, buf, stepi, l0, r0, ncalls, plan>>

Next == \/ ChoosePlan
        \/ (pc = "idle" /\ ncalls < Len(plan) /\ Begin(plan[ncalls + 1]))
        \/ TokText \/ TokOp \/ TokOpen \/ TokEnd
        \/ StepSkip \/ StepBegin \/ LoopDispatch \/ LoopEnd \/ Return

Spec == Init /\ [][Next]_vars

-----------------------------------------------------------------------------
\* C02 : no history changes what a solve returns
Independent ==
  (pc = "idle" /\ ~ResetOnBegin) =>       \* with the reset both sides are the same expression
    \A s \in Probes : Outcome(SolveFrom(s, left, right)) = Outcome(SolveFresh(s))

\* the buffers are empty between calls (the mechanism that makes Independent hold without a reset)
CleanAtIdle == pc = "idle" => left = <<>> /\ right = <<>>

\* small-step machine = big-step functions
SmallBig ==
  (pc = "idle" /\ ncalls > 0) =>
     LET b == SolveFrom(inp, l0, r0) IN /\ out = Outcome(b) /\ left = b.l /\ right = b.r

\* every finished call of the history returned what a fresh instance returns (C02 on the history itself)
HistoryFresh ==
  \A k \in 1..Len(outs) : outs[k] = Outcome(SolveFresh(plan[k]))

Finished == pc = "idle" /\ ncalls = Len(plan)
=============================================================================
