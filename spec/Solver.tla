------------------------------- MODULE Solver -------------------------------
(***************************************************************************)
(* One ExpressionSolver instance as a state machine over call histories.   *)
(* Small-step: one action per block of solve() / Tokens.operate that       *)
(* changes Tokens.left / Tokens.right, and a Raise wherever Python can     *)
(* raise.  The lists persist from call to call exactly as in the code;     *)
(* ResetOnBegin says whether solve() clears them when it starts (the code  *)
(* before the fix: FALSE, after it: TRUE).                                 *)
(*                                                                         *)
(* Properties                                                              *)
(*   C02  Independent : whenever the instance is idle, every expression    *)
(*        of the universe would give the same outcome as on a fresh        *)
(*        instance.                                                        *)
(*   C01  Refines (in SolverGen) : outcome of a fresh solve = Ideal.       *)
(*   SmallBig : the small-step machine and the big-step functions of       *)
(*        SolverMachine agree on every finished call.                      *)
(***************************************************************************)
EXTENDS SolverMachine, TLC

CONSTANTS Exprs,          \* universe of token strings the environment may pass to solve()
          ResetOnBegin,   \* BOOLEAN
          MaxCalls        \* bound on the history length explored

VARIABLES left, right,    \* Tokens.left, Tokens.right of THE instance
          pc,             \* "idle" | "tok" | "steps" | "loop"
          inp, pos, buf,  \* expression being tokenised, scan position, pending atom text
          stepi,          \* index into Steps
          out,            \* outcome of the last finished call (Polish tree or marker)
          l0, r0,         \* list contents when the running call began (after the optional reset)
          ncalls

vars == <<left, right, pc, inp, pos, buf, stepi, out, l0, r0, ncalls>>

Init == /\ left = <<>> /\ right = <<>> /\ pc = "idle" /\ inp = <<>> /\ pos = 1 /\ buf = <<>>
        /\ stepi = 1 /\ out = <<"#init">> /\ l0 = <<>> /\ r0 = <<>> /\ ncalls = 0

Begin(s) ==
  /\ pc = "idle" /\ ncalls < MaxCalls
  /\ pc' = "tok" /\ inp' = s /\ pos' = 1 /\ buf' = <<>> /\ stepi' = 1
  /\ left'  = IF ResetOnBegin THEN <<>> ELSE left
  /\ right' = IF ResetOnBegin THEN <<>> ELSE right
  /\ l0' = left' /\ r0' = right'
  /\ ncalls' = ncalls + 1
  /\ UNCHANGED out

Raise == /\ pc' = "idle" /\ out' = MERR /\ UNCHANGED <<inp, pos, buf, stepi, l0, r0, ncalls>>

\* a token that is not an operator of the table: expr.shift()
TokText ==
  /\ pc = "tok" /\ pos <= Len(inp) /\ ~IsOperatorTok(inp[pos])
  /\ buf' = Append(buf, inp[pos]) /\ pos' = pos + 1
  /\ UNCHANGED <<left, right, pc, inp, stepi, out, l0, r0, ncalls>>

\* pending text -> atom : [ok, right] ; the constructor may raise
Flush(r) == IF buf = <<>> THEN [ok |-> TRUE, r |-> r]
            ELSE LET a == AtomOf(buf) IN IF a.k = "n" THEN [ok |-> FALSE, r |-> r]
                                         ELSE [ok |-> TRUE, r |-> Append(r, a)]

\* an operator symbol without arguments
TokOp ==
  /\ pc = "tok" /\ pos <= Len(inp) /\ IsOperatorTok(inp[pos]) /\ inp[pos] \notin MOpenToks
  /\ LET f == Flush(right) IN
     IF f.ok THEN /\ right' = Append(f.r, O(inp[pos])) /\ buf' = <<>> /\ pos' = pos + 1
                  /\ UNCHANGED <<left, pc, inp, stepi, out, l0, r0, ncalls>>
     ELSE /\ right' = f.r /\ UNCHANGED left /\ Raise

\* a parenthesis operator: consume up to the matching close, solve the arguments on a nested solver
TokOpen ==
  /\ pc = "tok" /\ pos <= Len(inp) /\ IsOperatorTok(inp[pos]) /\ inp[pos] \in MOpenToks
  /\ LET f == Flush(right)
         j == CloseIdx(inp, pos + 1, 1)
         args == SplitArgs(inp, pos + 1, j, 1, <<>>)
         sa == SolveArgs(args, <<>>)
     IN IF ~f.ok THEN /\ right' = f.r /\ UNCHANGED left /\ Raise
        ELSE IF j = 0 \/ Len(args) # MNArg(inp[pos]) \/ sa.err
             THEN /\ right' = f.r /\ UNCHANGED left /\ Raise
        ELSE /\ right' = Append(f.r, F(inp[pos], sa.items)) /\ buf' = <<>> /\ pos' = j + 1
             /\ UNCHANGED <<left, pc, inp, stepi, out, l0, r0, ncalls>>

TokEnd ==
  /\ pc = "tok" /\ pos > Len(inp)
  /\ LET f == Flush(right) IN
     IF f.ok THEN /\ right' = f.r /\ buf' = <<>> /\ pc' = "steps" /\ stepi' = 1
                  /\ UNCHANGED <<left, inp, pos, out, l0, r0, ncalls>>
     ELSE /\ right' = f.r /\ UNCHANGED left /\ Raise

\* a step none of whose operators is in the table is skipped
StepSkip ==
  /\ pc = "steps" /\ stepi <= Len(Steps) /\ StepOps(stepi) = {}
  /\ stepi' = stepi + 1
  /\ UNCHANGED <<left, right, pc, inp, pos, buf, out, l0, r0, ncalls>>

StepBegin ==
  /\ pc = "steps" /\ stepi <= Len(Steps) /\ StepOps(stepi) # {}
  /\ pc' = "loop"
  /\ UNCHANGED <<left, right, inp, pos, buf, stepi, out, l0, r0, ncalls>>

\* one iteration of `while self.right`
LoopDispatch ==
  /\ pc = "loop" /\ right # <<>>
  /\ LET d == Dispatch(left, right, StepOps(stepi), Steps[stepi].otype) IN
     /\ left' = d.l /\ right' = d.r
     /\ IF d.err THEN Raise ELSE UNCHANGED <<pc, inp, pos, buf, stepi, out, l0, r0, ncalls>>

\* self.right = self.left ; self.left = []
LoopEnd ==
  /\ pc = "loop" /\ right = <<>>
  /\ right' = left /\ left' = <<>> /\ pc' = "steps" /\ stepi' = stepi + 1
  /\ UNCHANGED <<inp, pos, buf, out, l0, r0, ncalls>>

\* the final test and get_right()
Return ==
  /\ pc = "steps" /\ stepi > Len(Steps)
  /\ IF Len(left) > 0 \/ Len(right) > 1
     THEN /\ UNCHANGED <<left, right>> /\ Raise
     ELSE LET g == GetRight(right) IN
          /\ right' = g.r /\ UNCHANGED left /\ pc' = "idle"
          /\ out' = Outcome([err |-> FALSE, v |-> g.v])
          /\ UNCHANGED <<inp, pos, buf, stepi, l0, r0, ncalls>>

Next == \/ \E s \in Exprs : Begin(s)
        \/ TokText \/ TokOp \/ TokOpen \/ TokEnd
        \/ StepSkip \/ StepBegin \/ LoopDispatch \/ LoopEnd \/ Return

Spec == Init /\ [][Next]_vars

-----------------------------------------------------------------------------
\* C02 : no history changes what a solve returns
Independent ==
  pc = "idle" =>
    \A s \in Exprs :
       Outcome(SolveFrom(s, IF ResetOnBegin THEN <<>> ELSE left, IF ResetOnBegin THEN <<>> ELSE right))
         = Outcome(SolveFresh(s))

\* the buffers are empty between calls (the mechanism that makes Independent hold without a reset)
CleanAtIdle == pc = "idle" => left = <<>> /\ right = <<>>

\* small-step machine = big-step functions
SmallBig ==
  (pc = "idle" /\ ncalls > 0) =>
     LET b == SolveFrom(inp, l0, r0) IN /\ out = Outcome(b) /\ left = b.l /\ right = b.r

\* keeps the defective variant finite
Bounded == Len(left) + Len(right) <= 6
=============================================================================
