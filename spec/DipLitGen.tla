------------------------------ MODULE DipLitGen ------------------------------
(***************************************************************************)
(* C13: literal notations x hierarchy.  Every reachable state is a text of *)
(* group lines and definitions whose values are literals of the table in   *)
(* DipLiteral.tla (line value v = index into Lits, name n<v>).  The ideal  *)
(* and the machine of DipTree.tla give the resulting node list; the record *)
(* printed for the replay harness carries, for every resulting node, what  *)
(* a reader must see (type class, precision, sign, shape, elements, unit). *)
(* Table literals are emitted as separate scenarios (top level / below a   *)
(* group).                                                                 *)
(***************************************************************************)
EXTENDS DipTree, DipLiteral, Json

\* scenario names are single characters (a, b, g, h, -) or n<k>; only their order matters
GenNameChars(c) == <<c>>
GenCharOrd(ch) == CASE ch = "-" -> 45 [] ch = "a" -> 97 [] ch = "b" -> 98 [] ch = "g" -> 103 [] ch = "h" -> 104 [] OTHER -> 120

CONSTANTS LitIds, MaxInd, MaxLines

VARIABLE text

NameOf(i) == "n" \o ToString(i)

Init == text = <<>>
Next == /\ Len(text) < MaxLines
        /\ \E i \in 0..MaxInd :
              /\ i <= (IF text = <<>> THEN 0 ELSE Last(text).ind + 1)
              /\ \/ text' = Append(text, [k |-> "grp", ind |-> i, nm |-> <<"g">>, v |-> 0, c |-> FALSE])
                 \/ \E l \in LitIds : text' = Append(text, [k |-> "def", ind |-> i, nm |-> <<NameOf(l)>>, v |-> l, c |-> FALSE])

Expect(nodes) == [j \in 1..Len(nodes) |-> [p |-> nodes[j].p, lit |-> Lits[nodes[j].v]]]

TabName == "tb"
TabExpect(tab, prefix) ==
  [j \in 1..Len(tab.cols) |->
     [p |-> prefix \o <<TabName, tab.cols[j].name>>,
      lit |-> L(tab.cols[j].decl, "", tab.cols[j].unit, tab.cols[j].cls, tab.cols[j].prec, FALSE, <<Len(tab.rows)>>, tab.cols[j].vals)]]

EmitTables ==
  \A t \in 1..Len(Tables) :
     /\ PrintT(ToJson([kind |-> "table", tab |-> Tables[t], pos |-> "top", expect |-> TabExpect(Tables[t], <<>>)]))
     /\ PrintT(ToJson([kind |-> "table", tab |-> Tables[t], pos |-> "group", expect |-> TabExpect(Tables[t], <<"g">>)]))

Record(t) == LET i == IdealRun(t)  m == MachRun(t)
             IN [kind |-> "text", text |-> t, lits |-> [j \in 1..Len(t) |-> IF t[j].k = "def" THEN Lits[t[j].v] ELSE Lits[1]],
                 ideal |-> [ok |-> i.ok, nodes |-> Expect(i.nodes)],
                 machsame |-> (i.ok = m.ok /\ i.nodes = m.nodes)]

Refines == /\ (text = <<>> => EmitTables)
           /\ PrintT(ToJson(Record(text)))
           /\ Dev(text) = "none"
=============================================================================
