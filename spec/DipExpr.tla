------------------------------ MODULE DipExpr ------------------------------
(***************************************************************************)
(* C18 - DIP expressions: numerical, logical, template.                    *)
(*                                                                         *)
(* IDEAL side (sections 1-6): what the property and docs/source/dip/syntax/*)
(* expressions.rst say, written without looking at the solvers:            *)
(*   numerical  expr := term ((' + '|' - ') term)*                         *)
(*              term := prim ((' * '|' / ') prim)*       left to right     *)
(*              prim := atom | (expr) | fn(expr) | pow(expr,expr)          *)
(*              atom := number [unit] | {?ref}           carries its unit  *)
(*              + and - need equal dimensions, else the call must raise    *)
(*   logical    or := and ('||' and)* ; and := not ('&&' not)*             *)
(*              not := ['~'] cmp ; cmp := opd (cmpop opd)* ; opd := atom|(or)*)
(*              comparisons are unit aware, equality is tolerant to 1e-6   *)
(*              relative (integer ulp scale, see section 5)                *)
(*   template   text := ( plain | '{' {?ref} [slice] [:format] '}' )*      *)
(*                                                                         *)
(* MACHINE side (sections 7-9): the DIP solvers are instances of the       *)
(* generic ExpressionSolver (spec/SolverMachine.tla, bound to the code by  *)
(* C01/C02) with their own operator tables; the comparison semantics of    *)
(* datatypes/type_number.py and the scanning loop of template_solver.py    *)
(* are transcribed here with every deviation from the ideal NAMED (tags).  *)
(*                                                                         *)
(* Numbers: TLC has 32-bit integers and no reals.  A number is             *)
(*   [n, d, e]  =  n/d * 10^e   (n/d in lowest terms, no factor 10)        *)
(* and BAD when an intermediate result leaves the 32-bit range; such       *)
(* scenarios are classified "over" and carry no verdict.  Results of the   *)
(* transcendental functions stay symbolic: a value is a TERM               *)
(*   [op, n, d, e, a]   op = "q" (leaf n/d*10^e) | add sub mul div neg pow *)
(*                      | "f1" (n = index of the function occurrence)      *)
(* which the harness evaluates in floating point (DESIGN 4.2).             *)
(***************************************************************************)
EXTENDS Integers, Sequences, FiniteSets

\* Names (tags) of the machine's deviations that are still OPEN in known_findings: the machine side
\* follows the repaired code for every deviation that is not in this set, so that the transcription
\* neither drifts after a fix nor hides a regression (the harness fills it from the findings' status).
CONSTANT OpenDevs

(***************************************************************************)
(* 1. Exact numbers                                                        *)
(***************************************************************************)
AbsI(x) == IF x < 0 THEN -x ELSE x
MinI(x, y) == IF x < y THEN x ELSE y
RECURSIVE Gcd(_, _)
Gcd(a, b) == IF b = 0 THEN a ELSE Gcd(b, a % b)
MaxI == 1000000000
SafeMul(x, y) == x = 0 \/ y = 0 \/ AbsI(x) <= MaxI \div AbsI(y)

BAD == [n |-> 0, d |-> 0, e |-> 0]
IsBad(q) == q.d = 0
RECURSIVE Strip(_, _, _)
Strip(n, d, e) == IF n % 10 = 0 THEN Strip(n \div 10, d, e + 1)
                  ELSE IF d % 10 = 0 THEN Strip(n, d \div 10, e - 1)
                  ELSE [n |-> n, d |-> d, e |-> e]
Q(n, d, e) == IF d = 0 THEN BAD
              ELSE IF n = 0 THEN [n |-> 0, d |-> 1, e |-> 0]
              ELSE LET g == Gcd(AbsI(n), AbsI(d))
                       s == IF d < 0 THEN -1 ELSE 1
                   IN Strip((s * n) \div g, (s * d) \div g, e)
QInt(k) == Q(k, 1, 0)
QZero == QInt(0)
QOne == QInt(1)
QIsZero(x) == x.n = 0 /\ x.d # 0
QNeg(x) == IF IsBad(x) THEN BAD ELSE [n |-> -x.n, d |-> x.d, e |-> x.e]
QMul(x, y) == IF IsBad(x) \/ IsBad(y) \/ ~SafeMul(x.n, y.n) \/ ~SafeMul(x.d, y.d) THEN BAD
              ELSE Q(x.n * y.n, x.d * y.d, x.e + y.e)
QInv(x) == IF IsBad(x) \/ x.n = 0 THEN BAD ELSE Q(x.d, x.n, -x.e)
QDiv(x, y) == QMul(x, QInv(y))
QAdd(x, y) ==
  IF IsBad(x) \/ IsBad(y) THEN BAD
  ELSE IF x.n = 0 THEN y ELSE IF y.n = 0 THEN x
  ELSE LET e == MinI(x.e, y.e)  sx == x.e - e  sy == y.e - e IN
       IF sx > 8 \/ sy > 8 THEN BAD
       ELSE LET px == 10^sx  py == 10^sy IN
            IF ~SafeMul(x.n, px) \/ ~SafeMul(y.n, py) THEN BAD
            ELSE LET nx == x.n * px  ny == y.n * py IN
                 IF ~SafeMul(nx, y.d) \/ ~SafeMul(ny, x.d) \/ ~SafeMul(x.d, y.d) THEN BAD
                 ELSE Q(nx * y.d + ny * x.d, x.d * y.d, e)
QSub(x, y) == QAdd(x, QNeg(y))
QSign(x) == IF x.n > 0 THEN 1 ELSE IF x.n < 0 THEN -1 ELSE 0
QAbs(x) == IF IsBad(x) THEN BAD ELSE [n |-> AbsI(x.n), d |-> x.d, e |-> x.e]
\* -1, 0, 1 or 2 (= not decidable inside the integer range)
QCmp(x, y) == LET s == QSub(x, y) IN IF IsBad(s) THEN 2 ELSE QSign(s)
RECURSIVE QPowNat(_, _)
QPowNat(x, k) == IF k = 0 THEN QOne ELSE QMul(x, QPowNat(x, k - 1))
QPowInt(x, k) == IF k >= 0 THEN QPowNat(x, k) ELSE QInv(QPowNat(x, -k))
\* the integer a number denotes, when it is a small one
QIsSmallInt(x) == ~IsBad(x) /\ x.d = 1 /\ x.e \in 0..1 /\ AbsI(x.n) <= 3
QToInt(x) == x.n * 10^x.e
\* is x an integer at all (n/d in lowest terms, neither n nor d has a factor 10)
QIsInteger(x) == ~IsBad(x) /\ (x.n = 0 \/ (x.e >= 0 /\ x.e <= 8 /\ (10^x.e) % x.d = 0))

(***************************************************************************)
(* 2. Units: exact-ratio units over the dimensions <<length, time, mass,   *)
(*    angle>>, one custom unit  $unit len = 2 m , and the angle degree,    *)
(*    whose magnitude is an entry of the library's unit table (treated as  *)
(*    given, DESIGN 4.1): a value in deg is the TERM  number * tab:deg .   *)
(***************************************************************************)
UnitSyms == {"m", "cm", "km", "s", "ms", "g", "kg", "len", "rad", "mrad", "deg", "K", "Cel", "degF"}
\* <<length, time, mass, angle, temperature>>
NoDim == <<0, 0, 0, 0, 0>>
AngleDim == <<0, 0, 0, 1, 0>>
TempDim == <<0, 0, 0, 0, 1>>
UDim(u) == CASE u \in {"m", "cm", "km", "len"} -> <<1, 0, 0, 0, 0>>
             [] u \in {"s", "ms"} -> <<0, 1, 0, 0, 0>>
             [] u \in {"g", "kg"} -> <<0, 0, 1, 0, 0>>
             [] u \in {"rad", "mrad", "deg"} -> AngleDim
             [] u \in {"K", "Cel", "degF"} -> TempDim
             [] OTHER -> NoDim
\* units whose magnitude is not an exact ratio: taken from the library's table by the harness
TableUnits == {"deg"}
\* magnitude of one unit in the coherent base <<m, s, g>>
USc(u) == CASE u = "cm" -> Q(1, 1, -2) [] u = "km" -> Q(1, 1, 3) [] u = "ms" -> Q(1, 1, -3)
            [] u = "kg" -> Q(1, 1, 3) [] u = "len" -> Q(2, 1, 0) [] u = "mrad" -> Q(1, 1, -3)
            [] u = "degF" -> Q(5, 9, 0)
            [] u \in TableUnits -> BAD [] OTHER -> QOne
\* affine units: value in the coherent unit = (number + offset) * magnitude   (25 Cel = 298.15 K = 77 degF)
UOff(u) == CASE u = "Cel" -> Q(27315, 1, -2) [] u = "degF" -> Q(45967, 1, -2) [] OTHER -> QZero
AffineUnits == {"Cel", "degF"}
UText(u) == IF u = "len" THEN "[len]" ELSE u
CustomUnits == << [name |-> "len", n |-> 2, unit |-> "m"] >>
\* the same custom unit written with a definition in another unit of its dimension ($unit len = 200 cm): the
\* documented examples define units in pc, AU, Gy - the unit's magnitude is  number * magnitude of the stated unit
CustomAlt == << [name |-> "len", n |-> 200, unit |-> "cm"] >>
ASSUME \A i \in 1..Len(CustomAlt) : QMul(Q(CustomAlt[i].n, 1, 0), USc(CustomAlt[i].unit)) = USc(CustomAlt[i].name)
ASSUME \A i \in 1..Len(CustomUnits) : QMul(Q(CustomUnits[i].n, 1, 0), USc(CustomUnits[i].unit)) = USc(CustomUnits[i].name)
DAdd(a, b) == <<a[1] + b[1], a[2] + b[2], a[3] + b[3], a[4] + b[4], a[5] + b[5]>>
DSub(a, b) == <<a[1] - b[1], a[2] - b[2], a[3] - b[3], a[4] - b[4], a[5] - b[5]>>
DScale(a, k) == <<a[1] * k, a[2] * k, a[3] * k, a[4] * k, a[5] * k>>
\* a requested unit: one symbol per dimension, raised to the exponents of dim
ReqScale(us, dim) == QMul(QMul(QPowInt(USc(us[1]), dim[1]), QPowInt(USc(us[2]), dim[2])),
                          QMul(QPowInt(USc(us[3]), dim[3]), QPowInt(USc(us[4]), dim[4])))

(***************************************************************************)
(* 3. Atoms.  One table for all three grammars; the harness renders an     *)
(*    atom from these fields only (kind, name, number, unit).              *)
(*      fnode / inode  reference {?name} to a float / int node             *)
(*      lit            literal  <number> [unit]   (ft: written with a '.') *)
(*      bnode / blit   boolean node / keyword ; def: definedness !{?name}  *)
(*    value = n/d*10^e * (1 + k*1e-7) in unit u  (k: the tolerance scale)  *)
(***************************************************************************)
A(kind, name, n, d, e, k, u, ft, bv) ==
  [kind |-> kind, name |-> name, n |-> n, d |-> d, e |-> e, k |-> k, u |-> u, ft |-> ft, bv |-> bv]
AT(tok) ==
  CASE tok = "a"    -> A("fnode", "a", 3, 1, 0, 0, "m", FALSE, FALSE)
    [] tok = "c"    -> A("fnode", "c", 15, 1, 1, 0, "cm", FALSE, FALSE)
    [] tok = "t"    -> A("fnode", "t", 2, 1, 1, 0, "ms", FALSE, FALSE)
    [] tok = "f"    -> A("fnode", "f", 2, 1, 0, 0, "m", FALSE, FALSE)
    [] tok = "g"    -> A("fnode", "g", 2, 1, -3, 0, "km", FALSE, FALSE)
    [] tok = "h"    -> A("fnode", "h", 2, 1, -3, 12, "km", FALSE, FALSE)
    [] tok = "e"    -> A("fnode", "e", 4, 1, 0, 0, "len", FALSE, FALSE)
    [] tok = "k"    -> A("inode", "k", 4, 1, 0, 0, "kg", FALSE, FALSE)
    [] tok = "b"    -> A("inode", "b", 2, 1, 0, 0, "m", FALSE, FALSE)
    [] tok = "j"    -> A("inode", "j", 2, 1, 0, 0, "", FALSE, FALSE)
    [] tok = "r"    -> A("fnode", "r", 25, 1, 0, 0, "Cel", FALSE, FALSE)
    [] tok = "298.15K" -> A("lit", "", 29815, 1, -2, 0, "K", TRUE, FALSE)
    [] tok = "77degF"  -> A("lit", "", 77, 1, 0, 0, "degF", FALSE, FALSE)
    [] tok = "300K"    -> A("lit", "", 3, 1, 2, 0, "K", FALSE, FALSE)
    [] tok = "w"    -> A("fnode", "w", 3, 1, 1, 0, "deg", FALSE, FALSE)
    [] tok = "n"    -> A("inode", "n", 15, 1, 2, 0, "m", FALSE, FALSE)
    [] tok = "l"    -> A("inode", "l", 2, 1, 0, 0, "km", FALSE, FALSE)   \* 1500 m rounds to it, but is not it
    [] tok = "90deg"   -> A("lit", "", 9, 1, 1, 0, "deg", FALSE, FALSE)
    [] tok = "45deg"   -> A("lit", "", 45, 1, 0, 0, "deg", FALSE, FALSE)
    [] tok = "500mrad" -> A("lit", "", 5, 1, 2, 0, "mrad", FALSE, FALSE)
    [] tok = "1.5km"   -> A("lit", "", 15, 1, -1, 0, "km", TRUE, FALSE)
    [] tok = "150cm"  -> A("lit", "", 15, 1, 1, 0, "cm", FALSE, FALSE)
    [] tok = "2"      -> A("lit", "", 2, 1, 0, 0, "", FALSE, FALSE)
    [] tok = "-5cm"   -> A("lit", "", -5, 1, 0, 0, "cm", FALSE, FALSE)
    [] tok = ".002km" -> A("lit", "", 2, 1, -3, 0, "km", TRUE, FALSE)
    [] tok = "1.5len" -> A("lit", "", 15, 1, -1, 0, "len", TRUE, FALSE)
    [] tok = "8m"     -> A("lit", "", 8, 1, 0, 0, "m", FALSE, FALSE)
    [] tok = "300cm"  -> A("lit", "", 3, 1, 2, 0, "cm", FALSE, FALSE)
    [] tok = "3m"     -> A("lit", "", 3, 1, 0, 0, "m", FALSE, FALSE)
    [] tok = "3m+5"   -> A("lit", "", 3, 1, 0, 5, "m", TRUE, FALSE)
    [] tok = "3m-9"   -> A("lit", "", 3, 1, 0, -9, "m", TRUE, FALSE)
    [] tok = "3m+10"  -> A("lit", "", 3, 1, 0, 10, "m", TRUE, FALSE)
    [] tok = "3m+12"  -> A("lit", "", 3, 1, 0, 12, "m", TRUE, FALSE)
    [] tok = ".003km-20" -> A("lit", "", 3, 1, -3, -20, "km", TRUE, FALSE)
    [] tok = "4m"     -> A("lit", "", 4, 1, 0, 0, "m", FALSE, FALSE)
    [] tok = "200cm"  -> A("lit", "", 2, 1, 2, 0, "cm", FALSE, FALSE)
    [] tok = "250cm"  -> A("lit", "", 25, 1, 1, 0, "cm", FALSE, FALSE)
    [] tok = "2.0m"   -> A("lit", "", 2, 1, 0, 0, "m", TRUE, FALSE)
    [] tok = "3"      -> A("lit", "", 3, 1, 0, 0, "", FALSE, FALSE)
    [] tok = "3s"     -> A("lit", "", 3, 1, 0, 0, "s", FALSE, FALSE)
    [] tok = "true"   -> A("blit", "", 0, 1, 0, 0, "", FALSE, TRUE)
    [] tok = "false"  -> A("blit", "", 0, 1, 0, 0, "", FALSE, FALSE)
    [] tok = "d"      -> A("bnode", "d", 0, 1, 0, 0, "", FALSE, TRUE)
    [] tok = "q"      -> A("bnode", "q", 0, 1, 0, 0, "", FALSE, FALSE)
    [] tok = "!a"     -> A("def", "a", 0, 1, 0, 0, "", FALSE, TRUE)
    [] tok = "!z"     -> A("def", "zz", 0, 1, 0, 0, "", FALSE, FALSE)
NumKinds == {"fnode", "inode", "lit"}
BoolKinds == {"bnode", "blit", "def"}
AllAtomToks == {"r", "298.15K", "77degF", "300K", "w", "n", "l", "90deg", "45deg", "500mrad", "1.5km",
                "a", "c", "t", "f", "g", "h", "e", "k", "b", "j", "150cm", "2", "-5cm", ".002km", "1.5len",
                "8m", "300cm", "3m", "3m+5", "3m-9", "3m+10", "3m+12", ".003km-20", "4m", "200cm", "250cm",
                "2.0m", "3", "3s", "true", "false", "d", "q", "!a", "!z"}
IsNumTok(t) == t \in AllAtomToks /\ AT(t).kind \in NumKinds
IsBoolTok(t) == t \in AllAtomToks /\ AT(t).kind \in BoolKinds
\* nodes that exist in the environment text (the harness writes the DIP text from this list)
NodeToks == {"a", "c", "t", "f", "g", "h", "k", "b", "j", "d", "q", "w", "n", "l", "r"}
\* The value of an expression depends on the CURRENT value of the nodes it refers to, not on how they
\* got it: every scenario holds unchanged in the environment in which each node is first defined with a
\* decoy (number + 7, the other boolean) and then re-assigned its value.
DecoyN(tok) == AT(tok).n + 7
CustomNodeToks == {"e"}
\* base magnitude of an atom in its own unit, and in the coherent base
AMag(a) == Q(a.n, a.d, a.e)
ABase(a) == QMul(QAdd(AMag(a), UOff(a.u)), USc(a.u))

\* atom sets ("3 atoms / references" per expression family)
NumCfg(i) == CASE i = 1 -> [atoms |-> {"a", "150cm", "2"}, env |-> "plain"]
               [] i = 2 -> [atoms |-> {"a", "t", "-5cm"}, env |-> "plain"]
               [] i = 3 -> [atoms |-> {"c", ".002km", "k"}, env |-> "plain"]
               [] i = 4 -> [atoms |-> {"e", "1.5len", "a"}, env |-> "custom"]
               \* angles: operands of the trigonometric functions carry their unit too
               [] i = 5 -> [atoms |-> {"f", "w", "90deg"}, env |-> "plain"]
               [] i = 6 -> [atoms |-> {"w", "500mrad", "45deg"}, env |-> "plain"]
NNumCfg == 6
LogCfg(i) == CASE i = 1 -> [atoms |-> {"a", "300cm", "3m+5", "d", "!z"}, env |-> "plain"]
               [] i = 2 -> [atoms |-> {"a", "3m+12", ".003km-20", "q", "true"}, env |-> "plain"]
               [] i = 3 -> [atoms |-> {"b", "200cm", "250cm", "f", "d"}, env |-> "plain"]
               [] i = 4 -> [atoms |-> {"j", "2", "2.0m", "b", "false"}, env |-> "plain"]
               [] i = 5 -> [atoms |-> {"f", "g", "h", "!a", "q"}, env |-> "plain"]
               [] i = 6 -> [atoms |-> {"e", "8m", "1.5len", "a", "d"}, env |-> "custom"]
               [] i = 7 -> [atoms |-> {"a", "3", "3s", "3m-9", "3m+10"}, env |-> "plain"]
               [] i = 8 -> [atoms |-> {"3m", "300cm", "4m", "c", "true"}, env |-> "plain"]
               \* two int nodes in different units whose converted value is not integral (1500 m = 1.5 km)
               [] i = 9 -> [atoms |-> {"n", "l", "b", "1.5km", "d"}, env |-> "plain"]
               \* affine units of one dimension: 25 Cel = 298.15 K = 77 degF
               [] i = 10 -> [atoms |-> {"r", "298.15K", "77degF", "300K", "d"}, env |-> "plain"]
NLogCfg == 10

(***************************************************************************)
(* 4. Numerical expressions - ideal                                        *)
(***************************************************************************)
NumOps == {"+", "-", "*", "/"}
NumOpen == {"(", "f1(", "pow("}
POk(t, r) == [ok |-> TRUE, tree |-> t, rest |-> r]
PFail == [ok |-> FALSE, tree |-> <<>>, rest |-> <<>>]

RECURSIVE NAdd(_), NMul(_), NPrim(_), NChain(_, _, _)
NLevelOps(l) == IF l = "add" THEN {"+", "-"} ELSE {"*", "/"}
NSub(l, s) == IF l = "add" THEN NMul(s) ELSE NPrim(s)
NChain(l, acc, s) ==
  IF s # <<>> /\ Head(s) \in NLevelOps(l)
  THEN LET r == NSub(l, Tail(s)) IN IF r.ok THEN NChain(l, <<Head(s)>> \o acc \o r.tree, r.rest) ELSE PFail
  ELSE POk(acc, s)
NAdd(s) == LET r == NMul(s) IN IF r.ok THEN NChain("add", r.tree, r.rest) ELSE PFail
NMul(s) == LET r == NPrim(s) IN IF r.ok THEN NChain("mul", r.tree, r.rest) ELSE PFail
NPrim(s) ==
  IF s = <<>> THEN PFail
  ELSE IF IsNumTok(Head(s)) THEN POk(<<Head(s)>>, Tail(s))
  ELSE IF Head(s) \in {"(", "f1("} THEN
       LET r == NAdd(Tail(s)) IN
       IF r.ok /\ r.rest # <<>> /\ Head(r.rest) = ")"
       THEN POk((IF Head(s) = "(" THEN <<>> ELSE <<"f1">>) \o r.tree, Tail(r.rest)) ELSE PFail
  ELSE IF Head(s) = "pow(" THEN
       LET r1 == NAdd(Tail(s)) IN
       IF r1.ok /\ r1.rest # <<>> /\ Head(r1.rest) = ","
       THEN LET r2 == NAdd(Tail(r1.rest)) IN
            IF r2.ok /\ r2.rest # <<>> /\ Head(r2.rest) = ")"
            THEN POk(<<"**">> \o r1.tree \o r2.tree, Tail(r2.rest)) ELSE PFail
       ELSE PFail
  ELSE PFail
NParse(s) == LET r == NAdd(s) IN IF r.ok /\ r.rest = <<>> THEN r ELSE PFail
NERR == <<"#err">>
NTree(s) == LET r == NParse(s) IN IF r.ok THEN r.tree ELSE NERR

\* ---- values
TQ(q) == [op |-> "q", n |-> q.n, d |-> q.d, e |-> q.e, a |-> <<>>]
TOp(op, idx, args) == [op |-> op, n |-> idx, d |-> 1, e |-> 0, a |-> args]
\* st: "ok" | "mismatch" / "mismatch_inv" (operands of + or - differ in dimension: the call must raise)
\*     | "unspec" (outside what the documentation defines) | "over" (model integers too small)
V(st, dim, isq, q, t) == [st |-> st, dim |-> dim, isq |-> isq, q |-> q, t |-> t]
VQ(q, dim) == IF IsBad(q) THEN V("over", dim, FALSE, BAD, TQ(QZero)) ELSE V("ok", dim, TRUE, q, TQ(q))
VT(t, dim) == V("ok", dim, FALSE, BAD, t)
VSt(st) == V(st, NoDim, FALSE, BAD, TQ(QZero))
Worst(a, b) == IF "unspec" \in {a, b} THEN "unspec" ELSE IF "over" \in {a, b} THEN "over"
               ELSE IF "mismatch" \in {a, b} THEN "mismatch"
               ELSE IF "mismatch_inv" \in {a, b} THEN "mismatch_inv" ELSE "ok"

VNeg(x) == IF x.st # "ok" THEN x ELSE IF x.isq THEN VQ(QNeg(x.q), x.dim) ELSE VT(TOp("neg", 0, <<x.t>>), x.dim)
VAddSub(op, x, y) ==
  IF x.st # "ok" \/ y.st # "ok" THEN VSt(Worst(x.st, y.st))
  \* "mismatch_inv": the dimensions are inverse to each other (m and 1/m) - still different
  \* dimensions, named apart because the units module converts between them (see C04)
  ELSE IF x.dim # y.dim THEN VSt(IF x.dim = DScale(y.dim, -1) THEN "mismatch_inv" ELSE "mismatch")
  ELSE IF x.isq /\ y.isq THEN VQ(IF op = "+" THEN QAdd(x.q, y.q) ELSE QSub(x.q, y.q), x.dim)
  ELSE VT(TOp(IF op = "+" THEN "add" ELSE "sub", 0, <<x.t, y.t>>), x.dim)
VMulDiv(op, x, y) ==
  IF x.st # "ok" \/ y.st # "ok" THEN VSt(Worst(x.st, y.st))
  ELSE IF op = "/" /\ y.isq /\ QIsZero(y.q) THEN VSt("unspec")            \* division by zero
  ELSE LET dim == IF op = "*" THEN DAdd(x.dim, y.dim) ELSE DSub(x.dim, y.dim) IN
       IF x.isq /\ y.isq THEN VQ(IF op = "*" THEN QMul(x.q, y.q) ELSE QDiv(x.q, y.q), dim)
       ELSE VT(TOp(IF op = "*" THEN "mul" ELSE "div", 0, <<x.t, y.t>>), dim)
\* pow(x, y): y dimensionless; exact for small integer exponents
VPow(x, y) ==
  IF x.st # "ok" \/ y.st # "ok" THEN VSt(Worst(x.st, y.st))
  ELSE IF y.dim # NoDim THEN VSt("unspec")
  ELSE IF y.isq /\ QIsSmallInt(y.q) THEN
       LET k == QToInt(y.q) IN
       IF x.isq /\ QIsZero(x.q) /\ k <= 0 THEN VSt("unspec")
       ELSE IF x.isq THEN VQ(QPowInt(x.q, k), DScale(x.dim, k))
       ELSE VT(TOp("pow", 0, <<x.t, y.t>>), DScale(x.dim, k))
  ELSE IF x.dim = NoDim THEN VT(TOp("pow", 0, <<x.t, y.t>>), NoDim)
  ELSE VSt("unspec")
\* A one-argument function of a dimensionless value (any function of Fn1Table) or of an ANGLE (the
\* trigonometric ones: the operand carries its unit, so the function is taken of the angle in the
\* coherent unit rad, which is what x.t denotes).  The harness picks the function per occurrence from
\* the class FnClass names; other dimensions are outside what the documentation defines.
VFn(idx, x) ==
  IF x.st # "ok" THEN x
  ELSE IF x.dim \notin {NoDim, AngleDim} THEN VSt("unspec")
  ELSE VT(TOp("f1", idx, <<x.t>>), NoDim)
FnClass(x) == IF x.st = "ok" /\ x.dim = AngleDim THEN "trig" ELSE "any"
\* the one-argument functions: `fn` names the mathematical function of the term language, `text` is
\* how the occurrence is written.  The documentation calls the natural logarithm ln(, the solver
\* (and its tests) log( - both spellings are in the quantifier.
Fn1Table == << [fn |-> "exp", text |-> "exp(", tags |-> {}, cls |-> "any"],
               [fn |-> "ln", text |-> "log(", tags |-> {}, cls |-> "any"],
               [fn |-> "ln", text |-> "ln(", tags |-> {"fn_ln_as_documented"}, cls |-> "any"],
               [fn |-> "log10", text |-> "log10(", tags |-> {}, cls |-> "any"],
               [fn |-> "sin", text |-> "sin(", tags |-> {}, cls |-> "trig"],
               [fn |-> "cos", text |-> "cos(", tags |-> {}, cls |-> "trig"],
               [fn |-> "tan", text |-> "tan(", tags |-> {}, cls |-> "trig"] >>
TTab(u) == [op |-> "tab:" \o u, n |-> 0, d |-> 1, e |-> 0, a |-> <<>>]
VAtom(tok) == LET a == AT(tok) IN
              IF a.u \in AffineUnits THEN VSt("unspec")      \* arithmetic with affine units is not documented
              ELSE IF a.u \in TableUnits THEN VT(TOp("mul", 0, <<TQ(AMag(a)), TTab(a.u)>>), UDim(a.u))
              ELSE VQ(ABase(a), UDim(a.u))

\* evaluation of a Polish tree; fi = number of function occurrences met so far
RECURSIVE NEv(_, _, _)
NEv(tr, p, fi) ==
  LET h == tr[p] IN
  IF h \in {"+", "-", "*", "/", "**"} THEN
     LET x == NEv(tr, p + 1, fi)  y == NEv(tr, x.p, x.fi)
     IN [v |-> IF h \in {"+", "-"} THEN VAddSub(h, x.v, y.v)
               ELSE IF h = "**" THEN VPow(x.v, y.v) ELSE VMulDiv(h, x.v, y.v), p |-> y.p, fi |-> y.fi,
         fc |-> x.fc \cup y.fc]
  ELSE IF h = "f1" THEN LET x == NEv(tr, p + 1, fi + 1) IN
       [v |-> VFn(fi + 1, x.v), p |-> x.p, fi |-> x.fi, fc |-> x.fc \cup {<<fi + 1, FnClass(x.v)>>}]
  ELSE IF h = "neg" THEN LET x == NEv(tr, p + 1, fi) IN [v |-> VNeg(x.v), p |-> x.p, fi |-> x.fi, fc |-> x.fc]
  ELSE IF IsNumTok(h) THEN [v |-> VAtom(h), p |-> p + 1, fi |-> fi, fc |-> {}]
  ELSE [v |-> VSt("unspec"), p |-> p + 1, fi |-> fi, fc |-> {}]
NTreeOK(tr) == tr # <<>> /\ \A i \in 1..Len(tr) : IsNumTok(tr[i]) \/ tr[i] \in {"+", "-", "*", "/", "**", "f1", "neg"}
NEval(tr) == IF NTreeOK(tr) THEN NEv(tr, 1, 0).v ELSE VSt("unspec")
\* <<occurrence, class>> of every function occurrence of the tree
NFnClasses(tr) == IF NTreeOK(tr) THEN NEv(tr, 1, 0).fc ELSE {}

\* the value expressed in a requested unit
VIn(v, us) ==
  LET sc == ReqScale(us, v.dim) IN
  IF IsBad(sc) THEN VSt("over")
  ELSE IF v.isq THEN VQ(QDiv(v.q, sc), v.dim) ELSE VT(TOp("div", 0, <<v.t, TQ(sc)>>), v.dim)

\* classification of a token string of the numerical grammar
NClass(s) == LET r == NParse(s) IN
  IF ~r.ok THEN "ill" ELSE
  LET v == NEval(r.tree) IN
  CASE v.st = "ok" -> "value" [] v.st \in {"mismatch", "mismatch_inv"} -> "raise" [] v.st = "over" -> "over"
    [] OTHER -> "unspecified"

(***************************************************************************)
(* 5. Logical expressions - ideal                                          *)
(*    Tolerance scale: value = base*(1 + k*1e-7).  Two numbers are equal   *)
(*    iff their bases are equal and |k1 - k2| <= 9, different iff the      *)
(*    bases differ (all bases of the tables differ by more than 1e-3) or   *)
(*    |k1 - k2| >= 12; the band 10..11 is not decided.                     *)
(***************************************************************************)
CmpOps == {"==", "!=", "<=", ">=", "<", ">"}
RECURSIVE LOr(_), LAnd(_), LNot(_), LCmp(_), LOpd(_), LChain(_, _, _)
LLevelOps(l) == CASE l = "or" -> {"||"} [] l = "and" -> {"&&"} [] l = "cmp" -> CmpOps
LSub(l, s) == CASE l = "or" -> LAnd(s) [] l = "and" -> LNot(s) [] l = "cmp" -> LOpd(s)
LChain(l, acc, s) ==
  IF s # <<>> /\ Head(s) \in LLevelOps(l)
  THEN LET r == LSub(l, Tail(s)) IN IF r.ok THEN LChain(l, <<Head(s)>> \o acc \o r.tree, r.rest) ELSE PFail
  ELSE POk(acc, s)
LLevel(l, s) == LET r == LSub(l, s) IN IF r.ok THEN LChain(l, r.tree, r.rest) ELSE PFail
LOr(s) == LLevel("or", s)
LAnd(s) == LLevel("and", s)
LNot(s) == IF s # <<>> /\ Head(s) = "~"
           THEN LET r == LCmp(Tail(s)) IN IF r.ok THEN POk(<<"~">> \o r.tree, r.rest) ELSE PFail
           ELSE LCmp(s)
LCmp(s) == LLevel("cmp", s)
LOpd(s) == IF s = <<>> THEN PFail
           ELSE IF Head(s) \in AllAtomToks THEN POk(<<Head(s)>>, Tail(s))
           ELSE IF Head(s) = "(" THEN
                LET r == LOr(Tail(s)) IN
                IF r.ok /\ r.rest # <<>> /\ Head(r.rest) = ")" THEN POk(<<"par">> \o r.tree, Tail(r.rest)) ELSE PFail
           ELSE PFail
LParse(s) == LET r == LOr(s) IN IF r.ok /\ r.rest = <<>> THEN r ELSE PFail
\* the tree without the "par" markers (what the machine, which passes values through, produces)
RECURSIVE DropPar(_)
DropPar(tr) == IF tr = <<>> THEN <<>> ELSE (IF Head(tr) = "par" THEN <<>> ELSE <<Head(tr)>>) \o DropPar(Tail(tr))
LTree(s) == LET r == LParse(s) IN IF r.ok THEN DropPar(r.tree) ELSE NERR

\* a typed logical value.  ty: "num" (an operand descriptor tok) | "bool"
\* st: "ok" | "illtyped" | "unspec"
LV(st, ty, b, tok) == [st |-> st, ty |-> ty, b |-> b, tok |-> tok]
LBool(b) == LV("ok", "bool", b, "")
LSt(st) == LV(st, "bool", FALSE, "")
LWorst(a, b) == IF "illtyped" \in {a, b} THEN "illtyped" ELSE IF "unspec" \in {a, b} THEN "unspec" ELSE "ok"

\* three-valued result of an ideal comparison: "T" | "F" | "U" (not decided by the documentation)
ICmpNum(op, x, y) ==
  LET dx == UDim(x.u)  dy == UDim(y.u) IN
  IF dx # dy THEN "U"                      \* unit-less literal against a dimensional value, or
                                           \* different dimensions (docs: == is false; property silent)
  ELSE LET c == QCmp(ABase(x), ABase(y))  dk == x.k - y.k  adk == AbsI(dk) IN
  IF c = 2 THEN "U"
  ELSE IF c # 0 THEN (CASE op = "==" -> "F" [] op = "!=" -> "T"
                        [] op \in {"<", "<="} -> (IF c < 0 THEN "T" ELSE "F")
                        [] op \in {">", ">="} -> (IF c > 0 THEN "T" ELSE "F"))
  ELSE \* equal bases: the tolerance scale decides
       CASE op = "==" -> (IF adk <= 9 THEN "T" ELSE IF adk >= 12 THEN "F" ELSE "U")
         [] op = "!=" -> (IF adk <= 9 THEN "F" ELSE IF adk >= 12 THEN "T" ELSE "U")
         [] op = "<=" -> (IF dk <= 9 THEN "T" ELSE IF dk >= 12 THEN "F" ELSE "U")
         [] op = ">=" -> (IF dk >= -9 THEN "T" ELSE IF dk <= -12 THEN "F" ELSE "U")
         \* strict comparisons: nothing is said about values that are equal within the tolerance
         \* (x < y is false under both readings as soon as x is the larger one)
         [] op = "<"  -> (IF dk <= -12 THEN "T" ELSE IF dk >= 1 THEN "F"
                          ELSE IF dk = 0 /\ x.u = y.u THEN "F" ELSE "U")
         [] op = ">"  -> (IF dk >= 12 THEN "T" ELSE IF dk <= -1 THEN "F"
                          ELSE IF dk = 0 /\ x.u = y.u THEN "F" ELSE "U")
Tri(r) == IF r = "U" THEN LSt("unspec") ELSE LBool(r = "T")

ICmp(op, x, y) ==
  IF x.st # "ok" \/ y.st # "ok" THEN LSt(LWorst(x.st, y.st))
  ELSE IF x.ty = "num" /\ y.ty = "num" THEN Tri(ICmpNum(op, AT(x.tok), AT(y.tok)))
  ELSE IF x.ty = "bool" /\ y.ty = "bool" /\ op \in {"==", "!="} THEN LBool((x.b = y.b) = (op = "=="))
  ELSE LSt("illtyped")
ILogic(op, x, y) ==
  IF x.st # "ok" \/ y.st # "ok" THEN
       \* a decided left operand makes the result independent of an undecided right operand ONLY in
       \* the mathematical sense; the code evaluates both sides, so nothing is claimed here
       LSt(LWorst(x.st, y.st))
  ELSE IF x.ty # "bool" \/ y.ty # "bool" THEN LSt("illtyped")
  ELSE LBool(IF op = "&&" THEN x.b /\ y.b ELSE x.b \/ y.b)
INot(x) == IF x.st # "ok" THEN x ELSE IF x.ty # "bool" THEN LSt("illtyped") ELSE LBool(~x.b)
LAtom(tok) == LET a == AT(tok) IN IF a.kind \in NumKinds THEN LV("ok", "num", FALSE, tok) ELSE LBool(a.bv)

RECURSIVE LEv(_, _)
LEv(tr, p) ==
  LET h == tr[p] IN
  IF h \in CmpOps \cup {"&&", "||"} THEN
     LET x == LEv(tr, p + 1)  y == LEv(tr, x.p)
     IN [v |-> IF h \in CmpOps THEN ICmp(h, x.v, y.v) ELSE ILogic(h, x.v, y.v), p |-> y.p]
  ELSE IF h = "~" THEN LET x == LEv(tr, p + 1) IN [v |-> INot(x.v), p |-> x.p]
  ELSE IF h = "par" THEN LEv(tr, p + 1)
  ELSE [v |-> LAtom(h), p |-> p + 1]
LEval(tr) == LEv(tr, 1).v

\* "~~x", a parenthesised number and chained comparisons "a < b == c" follow from the grammar but
\* are not in the documentation's examples; they are kept (they are what the generic solver's
\* step table means) - only a doubled negation is excluded, as in C01
DoubleNot(s) == \E i \in 1..(Len(s) - 1) : s[i] = "~" /\ s[i + 1] = "~"
LClass(s) == LET r == LParse(s) IN
  IF ~r.ok THEN "ill" ELSE
  LET v == LEval(r.tree) IN
  IF v.st = "illtyped" \/ v.ty # "bool" THEN "illtyped"
  ELSE IF v.st = "unspec" \/ DoubleNot(s) THEN "unspecified" ELSE "value"

(***************************************************************************)
(* 6. Templates - ideal.  Tokens: "T" plain text, "{" "}" single braces,   *)
(*    "R*" a reference {?name}, "S*" a slice, "F*" a format.  A reference  *)
(*    segment is  { R [S] [F] } ; everything else is plain text, copied.   *)
(***************************************************************************)
TRefs == {"Ra", "Rs", "Rv", "Rb", "Rm"}
TSlices == {"S1", "S13", "S01"}
TFmts == {"F.2f", "F03d", "F.3g", "F>8s"}
TRefName(t) == CASE t = "Ra" -> "a" [] t = "Rs" -> "s" [] t = "Rv" -> "v" [] t = "Rb" -> "b" [] t = "Rm" -> "mm"
\* one <<lo, hi>> per dimension: <<i, i>> is an index, <<i, j>> a range; <<>> = no slice
TSliceOf(t) == CASE t = "S1" -> << <<1, 1>> >> [] t = "S13" -> << <<1, 3>> >> [] t = "S01" -> << <<0, 0>>, <<1, 1>> >>
                 [] OTHER -> <<>>
TFmtOf(t) == CASE t = "F.2f" -> ".2f" [] t = "F03d" -> "03d" [] t = "F.3g" -> ".3g" [] t = "F>8s" -> ">8s" [] OTHER -> ""
TPlain(t) == CASE t = "T" -> "ab" [] t = "{" -> "{" [] t = "}" -> "}"
               [] t \in TRefs -> "{?" \o TRefName(t) \o "}"
               [] t = "S1" -> "[1]" [] t = "S13" -> "[1:3]" [] t = "S01" -> "[0,1]"
               [] t \in TFmts -> ":" \o TFmtOf(t)
SegText(t) == [k |-> "text", s |-> TPlain(t), ref |-> "", sl |-> <<>>, fmt |-> ""]
SegRef(r, sl, f) == [k |-> "ref", s |-> "", ref |-> TRefName(r), sl |-> sl, fmt |-> f]
\* length of the reference segment starting at s[i] (0 = none)
TRefLen(s, i) ==
  IF i + 2 > Len(s) \/ s[i] # "{" \/ s[i + 1] \notin TRefs THEN 0
  ELSE LET j1 == IF i + 2 <= Len(s) /\ s[i + 2] \in TSlices THEN i + 3 ELSE i + 2
           j2 == IF j1 <= Len(s) /\ s[j1] \in TFmts THEN j1 + 1 ELSE j1
       IN IF j2 <= Len(s) /\ s[j2] = "}" THEN j2 - i + 1 ELSE 0
RECURSIVE TSeg(_, _)
TSeg(s, i) ==
  IF i > Len(s) THEN <<>>
  ELSE LET n == TRefLen(s, i) IN
       IF n = 0 THEN <<SegText(s[i])>> \o TSeg(s, i + 1)
       ELSE LET sl == IF s[i + 2] \in TSlices THEN TSliceOf(s[i + 2]) ELSE <<>>
                fp == IF s[i + 2] \in TSlices THEN i + 3 ELSE i + 2
                f == IF s[fp] \in TFmts THEN TFmtOf(s[fp]) ELSE ""
            IN <<SegRef(s[i + 1], sl, f)>> \o TSeg(s, i + n)
TIdeal(s) == TSeg(s, 1)
\* a single brace directly in front of a reference segment: "starting double curly brackets are
\* always a reference" does not say which two
\* likewise a reference followed by two slices ({{?v}[1][1]}) is outside the documented forms, but
\* close enough to one that "plain text" is not a safe reading
TAmbiguous(s) == \/ \E i \in 1..(Len(s) - 1) : s[i] = "{" /\ s[i + 1] = "{"
                 \/ \E i \in 1..(Len(s) - 3) : s[i] = "{" /\ s[i + 1] \in TRefs /\ s[i + 2] \in TSlices /\ s[i + 3] \in TSlices
TClass(s) == IF TAmbiguous(s) THEN "unspecified" ELSE "value"

(***************************************************************************)
(* 7. Machine: the two instances of the generic solver                     *)
(*    numerical_solver.py: operators log log10 logb exp sqrt powb sin cos  *)
(*    tan par pow(**) mul truediv add sub, default steps; the overridden   *)
(*    operate_unary tests isinstance(right, Quantity) = "is an atom".      *)
(*    logical_solver.py: par eq ne not(~) le ge lt gt and or.              *)
(*    Token names: the machine's "!" is DIP's negation sign "~".           *)
(***************************************************************************)
DefaultSteps == << [ops |-> {"(", "f1(", "f2(", "logb(", "pow("}, otype |-> "ARGS"],
                   [ops |-> {"+", "-"},          otype |-> "UNARY"],
                   [ops |-> {"**"},              otype |-> "BINARY"],
                   [ops |-> {"*", "/"},          otype |-> "BINARY"],
                   [ops |-> {"+", "-"},          otype |-> "BINARY"],
                   [ops |-> {"==", "!=", "<=", ">=", "<", ">"}, otype |-> "BINARY"],
                   [ops |-> {"!"},               otype |-> "UNARY"],
                   [ops |-> {"&&"},              otype |-> "BINARY"],
                   [ops |-> {"||"},              otype |-> "BINARY"] >>
NumAtomToks == {t \in AllAtomToks : AT(t).kind \in NumKinds}
MN == INSTANCE SolverMachine WITH
        Lenient <- FALSE, PyEq <- FALSE, Atoms <- NumAtomToks, BadAtoms <- {},
        OpTable <- {"(", "f1(", "pow(", "**", "*", "/", "+", "-"},
        Steps <- DefaultSteps
ML == INSTANCE SolverMachine WITH
        Lenient <- TRUE, PyEq <- TRUE, Atoms <- AllAtomToks, BadAtoms <- {},
        OpTable <- {"(", "==", "!=", "!", "<=", ">=", "<", ">", "&&", "||"},
        Steps <- DefaultSteps
ToM(s) == [i \in 1..Len(s) |-> IF s[i] = "~" THEN "!" ELSE s[i]]
FromM(s) == [i \in 1..Len(s) |-> IF s[i] = "!" THEN "~" ELSE s[i]]
NMach(s) == MN!Outcome(MN!SolveFresh(s))
LMach(s) == FromM(ML!Outcome(ML!SolveFresh(ToM(s))))

(***************************************************************************)
(* 8. Machine: comparison semantics of datatypes/type_number.py            *)
(*    (NumberType._prepare + __eq__ ... __ge__) and of BooleanType, with   *)
(*    the python type of every intermediate result, because the code's     *)
(*    behaviour depends on it:                                             *)
(*      "BT"  BooleanType     (<, >, <=, >=, != of numbers, &&, ||, ~)     *)
(*      "np"  numpy.bool_     (== of numbers)                              *)
(*      "py"  bool            (== of BooleanTypes)                         *)
(*      "pyne" bool           (!= of BooleanTypes: OperatorNe is not       *)
(*                            wrapped and BooleanType has no __ne__)       *)
(*    Since 98cfc9d the logical solver's CustomEq wraps the result of ==   *)
(*    into a BooleanType; "np"/"py" remain only while "not_of_eq" is open. *)
(*    Result: [r |-> "T"|"F"|"E"(raises)|"U"(floating point decides),      *)
(*             pt |-> python type, dev |-> set of named deviations]        *)
(***************************************************************************)
MR(r, pt, dev) == [r |-> r, pt |-> pt, dev |-> dev, num |-> FALSE, tok |-> ""]
MNum(tok) == [r |-> "T", pt |-> "num", dev |-> {}, num |-> TRUE, tok |-> tok]
MErr(dev) == MR("E", "", dev)

\* numeric comparison of l and r given as exact magnitudes in ONE unit with tolerance offsets kl, kr;
\* conv = some value went through a floating-point unit conversion (exact equality is then a matter of rounding)
\* np.isclose(l, r, rtol=1e-6) is |l-r| <= 1e-8 + 1e-6*|r|
MCmpMag(op, l, kl, r, kr, conv) ==
  LET c == QCmp(l, r)  dk == kl - kr  adk == AbsI(dk)
      \* equal bases: |dk|*1e-7*|r| <= atol + 1e-6*|r|   <=>   |dk|*|r| <= atol*1e7 + 10*|r|
      \* atol = 1e-8 is np.isclose's default; 0 once "eq_abs_tolerance" is repaired (atol=0)
      atol == IF "eq_abs_tolerance" \in OpenDevs THEN Q(1, 1, -8) ELSE QZero
      lhs == QMul(QInt(adk), QAbs(r))
      rhs == QAdd(QMul(atol, Q(1, 1, 7)), QMul(QInt(10), QAbs(r)))
      m == QCmp(lhs, rhs)
      edge == QCmp(QMul(QInt(adk + 1), QAbs(r)), rhs) # QCmp(QMul(QInt(IF adk = 0 THEN 0 ELSE adk - 1), QAbs(r)), rhs)
      close == IF c = 2 \/ m = 2 THEN "U"
               ELSE IF c = 0 THEN (IF edge THEN "U" ELSE IF m <= 0 THEN "T" ELSE "F")
               \* different bases are far apart relative to 1e-6; only the absolute term can join them
               ELSE LET diff == QAbs(QSub(l, r))  a == QCmp(diff, QAdd(atol, QMul(Q(1, 1, -6), QAbs(r)))) IN
                    IF a = 2 THEN "U" ELSE IF a <= 0 THEN "T" ELSE "F"
      lt == IF c = 2 THEN "U" ELSE IF c < 0 THEN "T" ELSE IF c > 0 THEN "F"
            ELSE IF dk < 0 THEN "T" ELSE IF dk > 0 THEN "F" ELSE IF conv THEN "U" ELSE "F"
      gt == IF c = 2 THEN "U" ELSE IF c > 0 THEN "T" ELSE IF c < 0 THEN "F"
            ELSE IF dk > 0 THEN "T" ELSE IF dk < 0 THEN "F" ELSE IF conv THEN "U" ELSE "F"
      Or3(p, q) == IF p = "T" \/ q = "T" THEN "T" ELSE IF p = "U" \/ q = "U" THEN "U" ELSE "F"
      Not3(p) == IF p = "T" THEN "F" ELSE IF p = "F" THEN "T" ELSE "U"
  IN CASE op = "==" -> close
       [] op = "!=" -> Not3(close)                   \* BooleanType(not self.__eq__(other))  (since 8f6fac5)
       [] op = "<"  -> lt
       [] op = ">"  -> gt
       [] op = "<=" -> Or3(lt, close)
       [] op = ">=" -> Or3(gt, close)

Neg3(p) == IF p = "T" THEN "F" ELSE IF p = "F" THEN "T" ELSE p
BareEq == "not_of_eq" \in OpenDevs
ResType(op) == IF op = "==" /\ BareEq THEN "np" ELSE "BT"
\* (since 48b85fe the result of != is wrapped like that of ==)
BoolCmpType(op) == IF op = "==" THEN (IF BareEq THEN "py" ELSE "BT")
                   ELSE IF "not_of_bool_ne" \in OpenDevs THEN "pyne" ELSE "BT"
\* self.convert(unit): only when both sides carry a unit and they differ; raises across dimensions
NeedsConv(from, to) == from # "" /\ to # "" /\ from # to
ConvFails(from, to) == NeedsConv(from, to) /\ UDim(from) # UDim(to)
\* magnitude of atom x expressed in unit `to` (when no conversion happens the number is kept as it is)
MagIn(x, to) == IF NeedsConv(x.u, to) THEN QSub(QDiv(ABase(x), USc(to)), UOff(to)) ELSE AMag(x)
\* int(<value>) of a literal for an int node: int('2.0') raises; after a conversion the float is truncated
\* (only values whose truncation is exact stay comparable in the model)
MCmpNum(op, x, y) ==
  IF x.kind = "lit" /\ y.kind = "lit" /\ "lit_vs_lit" \in OpenDevs THEN
       \* _prepare: self.value = float(self.value); other stays a STRING, units are ignored
       IF op = "==" THEN MR(MCmpMag("==", AMag(x), x.k, AMag(y), y.k, FALSE), ResType("=="), {"lit_vs_lit"})
       ELSE IF op = "!=" THEN MR(Neg3(MCmpMag("==", AMag(x), x.k, AMag(y), y.k, FALSE)), "BT", {"lit_vs_lit"})
       ELSE MErr({"lit_vs_lit"})                                       \* float < str : TypeError
  ELSE IF x.kind # "lit" /\ y.kind # "lit" /\ x.kind # y.kind /\ "inode_vs_fnode" \in OpenDevs THEN
       MErr({"inode_vs_fnode"})                                        \* raise Exception(.., expr): NameError
  ELSE IF (x.kind = "lit") = (y.kind = "lit") THEN
       \* two nodes (of one type; of either number type once "inode_vs_fnode" is repaired) or, once
       \* "lit_vs_lit" is repaired, two literals: SELF is converted into the other's unit
       IF ConvFails(x.u, y.u) THEN MErr({})
       ELSE MR(MCmpMag(op, MagIn(x, y.u), x.k, AMag(y), y.k, NeedsConv(x.u, y.u)), ResType(op), {})
  ELSE \* one literal, one node: the LITERAL is converted into the node's unit and cast with the node's dtype
       \* (as a number, integral or not, once "inode_vs_float_text" / "inode_vs_fraction" are repaired)
       LET lit == IF x.kind = "lit" THEN x ELSE y
           nod == IF x.kind = "lit" THEN y ELSE x
           conv == NeedsConv(lit.u, nod.u)
           mag == MagIn(lit, nod.u)
           trunc == nod.kind = "inode" /\ "inode_vs_fraction" \in OpenDevs
       IN IF ConvFails(lit.u, nod.u) THEN MErr({})
          ELSE IF nod.kind = "inode" /\ ~conv /\ lit.ft /\ "inode_vs_float_text" \in OpenDevs
               THEN MErr({"inode_vs_float_text"})   \* int('2.0')
          ELSE IF trunc /\ conv /\ lit.k # 0 THEN MR("U", ResType(op), {})   \* int() of a value next to an integer
          ELSE IF trunc /\ conv /\ ~QIsInteger(mag) THEN
               \* int(2.5) = 2 : compared after truncation
               MR("U", ResType(op), {"inode_vs_fraction"})
          ELSE LET lk == IF trunc THEN 0 ELSE lit.k IN
               IF x.kind = "lit"
               THEN MR(MCmpMag(op, mag, lk, AMag(nod), nod.k, conv), ResType(op), {})
               ELSE MR(MCmpMag(op, AMag(nod), nod.k, mag, lk, conv), ResType(op), {})

MCmp(op, x, y) ==
  IF x.r = "E" \/ y.r = "E" THEN MErr(x.dev \cup y.dev)
  ELSE IF x.num /\ y.num THEN
       LET m == MCmpNum(op, AT(x.tok), AT(y.tok)) IN [m EXCEPT !.dev = m.dev \cup x.dev \cup y.dev]
  ELSE IF x.num THEN (IF AT(x.tok).kind = "lit" THEN MR("U", ResType(op), x.dev \cup y.dev)   \* bool('300')
                      ELSE MErr(x.dev \cup y.dev))          \* node against a boolean: NameError
  ELSE IF y.num THEN MR("U", BoolCmpType(op), x.dev \cup y.dev)   \* BooleanType.__eq__(number): value comparison
  ELSE IF op \notin {"==", "!="} THEN MErr(x.dev \cup y.dev) \* BooleanType has no ordering
  ELSE IF x.pt = "np" \/ y.pt = "np" THEN MR("U", BoolCmpType(op), x.dev \cup y.dev \cup {"eq_of_numeric_eq"})
  ELSE IF x.r = "U" \/ y.r = "U" THEN MR("U", BoolCmpType(op), x.dev \cup y.dev)
  ELSE MR(IF (x.r = y.r) = (op = "==") THEN "T" ELSE "F", BoolCmpType(op), x.dev \cup y.dev)
\* CustomAnd / CustomOr wrap bare bools into BooleanType; `self.value and other.value`
MLogic(op, x, y) ==
  IF x.r = "E" \/ y.r = "E" THEN MErr(x.dev \cup y.dev)
  ELSE IF x.num THEN MErr(x.dev \cup y.dev)                 \* FloatType has no logical_and
  ELSE IF y.num THEN MR("U", "BT", x.dev \cup y.dev)
  ELSE IF x.r = "U" \/ y.r = "U" THEN MR("U", "BT", x.dev \cup y.dev)
  ELSE MR(IF (IF op = "&&" THEN x.r = "T" /\ y.r = "T" ELSE x.r = "T" \/ y.r = "T") THEN "T" ELSE "F", "BT", x.dev \cup y.dev)
\* OperatorNot: right.logical_not() - only BooleanType has it
MNot(x) ==
  IF x.r = "E" THEN x
  ELSE IF x.num THEN MErr(x.dev)
  ELSE IF x.pt = "pyne" THEN MErr(x.dev \cup {"not_of_bool_ne"})   \* bool has no logical_not
  ELSE IF x.pt # "BT" THEN MErr(x.dev \cup {"not_of_eq"})    \* numpy.bool_ / bool has no logical_not
  ELSE MR(IF x.r = "U" THEN "U" ELSE IF x.r = "T" THEN "F" ELSE "T", "BT", x.dev)
MAtom(tok) == LET a == AT(tok) IN IF a.kind \in NumKinds THEN MNum(tok) ELSE MR(IF a.bv THEN "T" ELSE "F", "BT", {})
RECURSIVE MEv(_, _)
MEv(tr, p) ==
  LET h == tr[p] IN
  IF h \in CmpOps \cup {"&&", "||"} THEN
     LET x == MEv(tr, p + 1)  y == MEv(tr, x.p)
     IN [v |-> IF h \in CmpOps THEN MCmp(h, x.v, y.v) ELSE MLogic(h, x.v, y.v), p |-> y.p]
  ELSE IF h = "~" THEN LET x == MEv(tr, p + 1) IN [v |-> MNot(x.v), p |-> x.p]
  ELSE IF h \in {"&&?", "||?"} THEN LET x == MEv(tr, p + 1) IN [v |-> [x.v EXCEPT !.r = "U"], p |-> x.p]
  ELSE [v |-> MAtom(h), p |-> p + 1]
LTreeOK(tr) == tr # <<>> /\ \A i \in 1..Len(tr) : tr[i] \in AllAtomToks \cup CmpOps \cup {"&&", "||", "~", "&&?", "||?"}
MEval(tr) == IF LTreeOK(tr) THEN MEv(tr, 1).v ELSE MErr({})
\* observable outcome of the machine for a logical token string: "T" "F" "E" "U"
LMachOut(s) == LET t == LMach(s) IN IF t = NERR THEN "E" ELSE IF ~LTreeOK(t) THEN "U"
               ELSE LET v == MEval(t) IN IF v.num THEN "U" ELSE v.r
LMachDev(s) == LET t == LMach(s) IN IF LTreeOK(t) THEN MEval(t).dev ELSE {}

\* feature tags of a logical scenario computed on the IDEAL tree (used by the known-findings matcher):
\* the named deviations of section 8 plus properties of the comparisons present
RECURSIVE CmpFeatures(_, _)
NumPairFeatures(op, x, y) ==
  LET samedim == UDim(x.u) = UDim(y.u)
      eqbase == samedim /\ QCmp(ABase(x), ABase(y)) = 0
      adk == AbsI(x.k - y.k)
      \* the operand that ends up on the right of isclose, in the unit the code compares in
      rmag == IF x.kind = "lit" /\ y.kind # "lit" THEN AMag(y)
              ELSE IF y.kind = "lit" /\ x.kind # "lit" THEN MagIn(y, x.u) ELSE AMag(y)
  IN (IF op = "!=" /\ eqbase /\ adk <= 9 /\ ~(adk = 0 /\ x.u = y.u) THEN {"ne_within_tolerance"} ELSE {})
     \* (!= is listed too: it is exact today, but it is the negation of == in the documentation)
     \cup (IF op \in {"==", "!=", "<=", ">="} /\ eqbase /\ adk >= 12 /\ ~IsBad(rmag) /\ QCmp(QAbs(rmag), Q(1, 1, -2)) <= 0
           THEN {"eq_abs_tolerance"} ELSE {})
CmpFeatures(tr, p) ==
  LET h == tr[p] IN
  IF h \in CmpOps \cup {"&&", "||"} THEN
     LET x == CmpFeatures(tr, p + 1)  y == CmpFeatures(tr, x.p)
         here == IF h \in CmpOps /\ x.leaf /\ y.leaf /\ IsNumTok(x.tok) /\ IsNumTok(y.tok)
                 THEN NumPairFeatures(h, AT(x.tok), AT(y.tok)) ELSE {}
     IN [f |-> x.f \cup y.f \cup here, p |-> y.p, leaf |-> FALSE, tok |-> ""]
  ELSE IF h \in {"~", "par"} THEN LET x == CmpFeatures(tr, p + 1) IN
       [f |-> x.f, p |-> x.p, leaf |-> h = "par" /\ x.leaf, tok |-> IF h = "par" THEN x.tok ELSE ""]
  ELSE [f |-> {}, p |-> p + 1, leaf |-> TRUE, tok |-> h]
LFeatures(s) == LET r == LParse(s) IN IF r.ok THEN CmpFeatures(r.tree, 1).f ELSE {}

(***************************************************************************)
(* 9. Machine: TemplateSolver.solve - the scanning loop                    *)
(*      sign = expr[0]; if '{': Parser(rest).part_reference (regex         *)
(*      \s*{[^}]*}), part_slice, part_format (regex :[0-9.]*[sdfeb]+);     *)
(*      if value_ref and ccode[0]=='}': replace, else copy the sign.       *)
(***************************************************************************)
\* formats the old regex :[0-9.]*[sdfeb]+ accepted; since 0920e69 the full format specification
FmtSdfeb(t) == t \in {"F.2f", "F03d"}
MFmtOK(t) == t \in TFmts /\ (FmtSdfeb(t) \/ "format_outside_sdfeb" \notin OpenDevs)
TERR == << [k |-> "err", s |-> "", ref |-> "", sl |-> <<>>, fmt |-> ""] >>
IsTErr(x) == x # <<>> /\ x[Len(x)].k = "err"
TUNK == << [k |-> "unk", s |-> "", ref |-> "", sl |-> <<>>, fmt |-> ""] >>
\* position after the slices / the format that follow the reference s[i+1]: part_reference consumes
\* one slice itself and the solver's own part_slice a second one, which then wins
MAfterSl(s, i) == LET j0 == i + 2
                      j1 == IF j0 <= Len(s) /\ s[j0] \in TSlices THEN j0 + 1 ELSE j0
                  IN IF j1 > j0 /\ j1 <= Len(s) /\ s[j1] \in TSlices THEN j1 + 1 ELSE j1
MAfterFmt(s, i) == LET j1 == MAfterSl(s, i) IN IF j1 <= Len(s) /\ MFmtOK(s[j1]) THEN j1 + 1 ELSE j1
RECURSIVE TMachFrom(_, _)
TMachFrom(s, i) ==
  IF i > Len(s) THEN <<>>
  ELSE IF s[i] = "{" /\ i + 1 <= Len(s) /\ s[i + 1] \in TRefs THEN
       LET j1 == MAfterSl(s, i)
           j2 == MAfterFmt(s, i)
       IN IF j2 > Len(s) THEN (IF "reference_at_end_of_text" \in OpenDevs
                               THEN TERR                             \* p.ccode[0] on an empty string: IndexError
                               ELSE <<SegText("{")>> \o TMachFrom(s, i + 1))   \* p.ccode[:1] since 0920e69
          ELSE IF s[j2] = "}" THEN
               <<SegRef(s[i + 1], IF j1 > i + 2 THEN TSliceOf(s[j1 - 1]) ELSE <<>>,
                        IF j2 = j1 + 1 THEN TFmtOf(s[j1]) ELSE "")>> \o TMachFrom(s, j2 + 1)
          ELSE <<SegText("{")>> \o TMachFrom(s, i + 1)
  ELSE IF s[i] = "{" /\ i + 1 <= Len(s) /\ s[i + 1] = "{" THEN
       \* "{" "{" ... : the regex {[^}]*} runs to the next closing brace of the TEXT, whatever it
       \* belongs to - a character-level effect this token-level model does not follow
       TUNK
  ELSE <<SegText(s[i])>> \o TMachFrom(s, i + 1)
TMach(s) == TMachFrom(s, 1)
\* named deviations of the template machine
TFeatures(s) ==
  (IF \E i \in 1..Len(s) : s[i] = "{" /\ TRefLen(s, i) > 0 /\
        (LET fp == IF s[i + 2] \in TSlices THEN i + 3 ELSE i + 2 IN s[fp] \in TFmts /\ ~FmtSdfeb(s[fp]))
   THEN {"format_outside_sdfeb"} ELSE {})
  \cup (IF \E i \in 1..Len(s) : s[i] = "{" /\ i + 1 <= Len(s) /\ s[i + 1] \in TRefs /\ TRefLen(s, i) = 0 /\
          MAfterFmt(s, i) > Len(s)
        THEN {"reference_at_end_of_text"} ELSE {})
=============================================================================
