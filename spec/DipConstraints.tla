--------------------------- MODULE DipConstraints ---------------------------
(***************************************************************************)
(* C16 - parse() returns only environments that satisfy every declared     *)
(* constraint.                                                             *)
(*                                                                         *)
(* A PROGRAM p is one DIP node with its constraints:                       *)
(*   ty    "float" | "int" | "str" | "bool"                                *)
(*   nu    unit of the definition: "" | "m" | "km" | "s"                   *)
(*   dims  <<>> for a scalar, else << <<lo,hi>>, .. >> (-1 = open bound)   *)
(*   def   the value written in the definition, or [t |-> "decl"]          *)
(*   mods  0..2 modifications  `x = v [unit]`                              *)
(*   cons  0..3 constraint lines (options per line / !options list,        *)
(*         !condition, !format)                                            *)
(*   place "def": the constraint lines follow the definition               *)
(*         "mod": they follow the last modification                        *)
(*   by    a second node of the same type defined between the definition   *)
(*         and the modifications (bystander), or [t |-> "nil"]             *)
(*   refm  [t |-> "nil"] or the value a modification assigns to the        *)
(*         REFERENCE node: comparison atoms whose literal has t = "ref"    *)
(*         compare {?} with another node `{?lim}` defined in front (the    *)
(*         literal's n, u, k are that node's definition)                   *)
(*   split "one": one text; "two": the definitions with their constraint   *)
(*         lines are parsed first and every modification is a second       *)
(*         text parsed on top of the returned environment, DIP(env)        *)
(*   via   "direct": the modifications address the defined node itself     *)
(*         "local" : the node is defined (with its constraint lines) in a  *)
(*                   group, imported elsewhere by `{?group.*}` and the     *)
(*                   modifications address the imported copy               *)
(*         "source": the same with the definition in a `$source` file and  *)
(*                   an import `{src?*}`                                   *)
(*                                                                         *)
(* Literals: [t |-> "num", n |-> <<num,den>>, u |-> unit, k |-> ulps]      *)
(*   stands for n*(1 + k*1e-7) written in unit u ("" = no unit written),   *)
(*   [t |-> "str", s] (a `|` inside s stands for a line break: the value   *)
(*   is written as a """ block of several lines), [t |-> "bool", b],      *)
(*   [t |-> "none"],                                                       *)
(*   [t |-> "arr", shape |-> <<n1, ..>>, dm |-> the dimension bounds       *)
(*   written on THIS line: the node's on its definition, <<>> on a plain   *)
(*   modification `v = [..]`, the repeated/changed ones on a typed         *)
(*   redefinition `v int[:] = [..]`].                                      *)
(*                                                                         *)
(* IDEAL   Ideal(p) in {"accept","reject","unspec"}: every constraint      *)
(*   holds of the FINAL value (three-valued: "U" where the documentation   *)
(*   leaves the answer open).  Numbers are exact rationals; the 1e-6       *)
(*   precision of == != <= >= is expressed on the integer scale k:         *)
(*   two values with the same base are equal iff |k1-k2| <= 9, different   *)
(*   iff >= 12, the band between is unspecified.                           *)
(* MACHINE Mach(p, devs): a transcription of the validation loop at the    *)
(*   end of DIP.parse() and of the code it calls (SelectNode, NumberType,  *)
(*   LogicalSolver, cast_value).  Each known disagreement with the ideal   *)
(*   is a NAMED DEVIATION that can be switched off; TLC checks that the    *)
(*   machine with all deviations off equals the ideal on every definite    *)
(*   program (DevsExplain) - the deviation list is complete.               *)
(* GENERATOR every reachable state with ph >= 1 is one program; EmitInv    *)
(*   prints one JSON record per program for the replay harness.            *)
(***************************************************************************)
EXTENDS Integers, Sequences, FiniteSets, TLC, Json

CONSTANTS
  Families,   \* set of [ty, nu, arr] explored by this run
  Ks,         \* ulp offsets (units of 1e-7 relative) of "fine" float values
  MaxMods,    \* longest modification chain (1 or 2)
  MaxCons,    \* most constraint lines per node (<= 3)
  Rich,       \* TRUE: the larger pools of the thorough tier
  FmtTable,   \* [pattern text -> [end |-> BOOLEAN, cls |-> [string -> "full"|"prefix"|"inner"|"none"]]]
  FmtOrder,   \* the patterns as a sequence (most important first)
  StrOrder,   \* the test strings as a sequence (most important first)
  Devs,       \* named deviations switched on in the machine (AllDevs for the pinned tree)
  DoEmit      \* print one record per program

Last(s)  == s[Len(s)]
Range(s) == {s[i] : i \in 1..Len(s)}
Abs(x)   == IF x < 0 THEN -x ELSE x
MinOf(S) == CHOOSE x \in S : \A y \in S : x <= y
Nil      == [t |-> "nil"]
Decl     == [t |-> "decl"]
None     == [t |-> "none"]
Str(s)   == [t |-> "str", s |-> s]
Bool(b)  == [t |-> "bool", b |-> b]
ArrL(sh, dm) == [t |-> "arr", shape |-> sh, dm |-> dm]

-----------------------------------------------------------------------------
(* exact rationals <<num, den>>, den > 0 *)
RECURSIVE Gcd(_, _)
Gcd(a, b) == IF b = 0 THEN a ELSE Gcd(b, a % b)
Q(n, d) == IF n = 0 THEN <<0, 1>> ELSE LET g == Gcd(Abs(n), Abs(d)) IN <<n \div g, d \div g>>
QMul(x, y) == Q(x[1] * y[1], x[2] * y[2])
QDiv(x, y) == Q(x[1] * y[2], x[2] * y[1])          \* y > 0
QEq(x, y) == x[1] * y[2] = y[1] * x[2]
QLt(x, y) == x[1] * y[2] < y[1] * x[2]
QIsInt(x) == x[2] = 1
QTrunc(x) == <<x[1] \div x[2], 1>>                 \* x >= 0 : what int(float) does

-----------------------------------------------------------------------------
(* units: factor to the base unit of the dimension *)
UnitF == [m |-> <<1, 1>>, cm |-> <<1, 100>>, mm |-> <<1, 1000>>, km |-> <<1000, 1>>, s |-> <<1, 1>>, ms |-> <<1, 1000>>]
UnitDim == [m |-> "L", cm |-> "L", mm |-> "L", km |-> "L", s |-> "T", ms |-> "T"]
AltSeq(nu) == CASE nu = "m" -> <<"cm", "km">> [] nu = "km" -> <<"m">> [] nu = "s" -> <<"ms">> [] OTHER -> <<>>
HasAlt(nu)  == Len(AltSeq(nu)) >= 1
HasAlt2(nu) == Len(AltSeq(nu)) >= 2
Alt1(nu) == IF HasAlt(nu) THEN AltSeq(nu)[1] ELSE nu
Alt2(nu) == AltSeq(nu)[2]

\* the value of a numeric literal in NODE units (its base; the ulp offset k rides along)
Base(l, nu)  == IF l.u = "" \/ nu = "" \/ l.u = nu THEN l.n ELSE QDiv(QMul(l.n, UnitF[l.u]), UnitF[nu])
\* a literal is "foreign" when it is written in another unit than the node's: a conversion happens
Foreign(l, nu) == l.u # "" /\ l.u # nu
\* a number written in the condition ("num") or the value of the referenced node ("ref")
IsNumLit(l) == l.t \in {"num", "ref"}
\* b node-units written in unit u
InUnit(b, u, nu) == IF u = "" \/ nu = "" THEN b ELSE QDiv(QMul(b, UnitF[nu]), UnitF[u])
Num(b, u, k, nu) == [t |-> "num", n |-> InUnit(b, u, nu), u |-> u, k |-> k]

\* the same NUMBER as b node-units, written in the alternative unit: another quantity that only looks alike
\* (3 cm among the options of a node holding 3 m) - must not be taken for the value
Trap(b, nu) == [t |-> "num", n |-> b, u |-> Alt1(nu), k |-> 0]

Far == 1000
QSub(x, y) == Q(x[1] * y[2] - y[1] * x[2], x[2] * y[2])
\* different bases closer than 1e-4 relative (never the case inside the generated pools; observed values of
\* recorded environments can be): too close for this scale to tell equal from different
NearBases(x, y) == /\ x[1] # 0 /\ y[1] # 0            \* zero is near nothing but itself
                   /\ LET d == QSub(x, y) IN Abs(d[1]) * 10000 * y[2] < Abs(y[1]) * d[2]
\* signed distance on the ulp scale: same base -> difference of k; different bases -> +-Far, or +-10
\* (inside the unspecified band of the precision) when they are closer than 1e-4 relative
Dist(bx, kx, by, ky) == IF QEq(bx, by) THEN kx - ky
                        ELSE LET sg == IF QLt(bx, by) THEN -1 ELSE 1
                             IN IF NearBases(bx, by) THEN sg * 10 ELSE sg * Far
DistL(x, y, nu) == Dist(Base(x, nu), x.k, Base(y, nu), y.k)

-----------------------------------------------------------------------------
(* program accessors *)
Assigned(p) == (IF p.def.t = "decl" THEN <<>> ELSE <<p.def>>) \o p.mods
IsArr(p)    == p.dims # <<>>
OfKind(cs, k) == SelectSeq(cs, LAMBDA c : c.c = k)
OptVals(cs) == UNION {Range(c.vals) : c \in {x \in Range(cs) : x.c = "opts"}}

-----------------------------------------------------------------------------
(*                               I D E A L                                  *)
(* three-valued truth: "T", "F", "U" (the documentation leaves it open)     *)
B3(b)      == IF b THEN "T" ELSE "F"
Not3(x)    == CASE x = "T" -> "F" [] x = "F" -> "T" [] OTHER -> "U"
AndAll3(S) == IF "F" \in S THEN "F" ELSE IF "U" \in S THEN "U" ELSE "T"
OrAll3(S)  == IF "T" \in S THEN "T" ELSE IF "U" \in S THEN "U" ELSE "F"
Agree(x, y) == IF x = y THEN x ELSE "U"

\* the documented EQUAL_PRECISION 1e-6 on the ulp scale (1 ulp = 1e-7 relative)
IEq(d) == IF Abs(d) <= 9 THEN "T" ELSE IF Abs(d) >= 12 THEN "F" ELSE "U"
\* d = signed distance left - right; conv: one side was converted from another unit.
\* == != <= >= are tolerant, < > are exact ("A is smaller than B"); an exactly equal
\* pair that went through a unit conversion is not judged under the strict operators.
ICmp(op, d, conv) ==
  CASE op = "==" -> IEq(d)
    [] op = "!=" -> Not3(IEq(d))
    [] op = "<=" -> IF d < 0 THEN "T" ELSE IEq(d)
    [] op = ">=" -> IF d > 0 THEN "T" ELSE IEq(d)
    [] op = "<"  -> IF d < 0 THEN "T" ELSE IF d > 0 THEN "F" ELSE IF conv THEN "U" ELSE "F"
    [] op = ">"  -> IF d > 0 THEN "T" ELSE IF d < 0 THEN "F" ELSE IF conv THEN "U" ELSE "F"

\* one comparison of a condition: {?} bound to the value v
IAtom(nu, v, a) ==
  CASE IsNumLit(a.lit) ->
         LET dv == DistL(v, a.lit, nu)
             d  == IF a.left = "self" THEN dv ELSE -dv
         IN ICmp(a.op, d, Foreign(v, nu) \/ Foreign(a.lit, nu))
    [] a.lit.t = "str"  -> B3((v.s = a.lit.s) = (a.op = "=="))
    [] a.lit.t = "bool" -> IF a.op = "is" THEN B3(v.b) ELSE B3((v.b = a.lit.b) = (a.op = "=="))

ICond(nu, v, c) ==
  LET rs == {IAtom(nu, v, c.atoms[i]) : i \in 1..Len(c.atoms)}
  IN IF c.join = "or" THEN OrAll3(rs) ELSE AndAll3(rs)

\* final value equals one of the options, compared in the node's unit; the per-line options and
\* all !options lists of a node "combine into a single array of options"
IOpt(nu, v, o) == IF o.t = "str" THEN B3(v.s = o.s) ELSE IEq(DistL(v, o, nu))
IOptsAll(nu, v, cs) ==
  LET os == OptVals(cs) IN
  IF os = {} THEN "T" ELSE OrAll3({IOpt(nu, v, o) : o \in os})

\* the whole value matches the pattern; a match of a proper prefix only is left open unless
\* the pattern is anchored at its end (the documentation says "regular expression" and shows
\* a pattern that "can contain only letters"; the library's own test rejects '7-up' for [a-zA-Z]+)
IFmtCls(cl, endAnchored) == IF cl = "full" THEN "T" ELSE IF cl = "prefix" /\ ~endAnchored THEN "U" ELSE "F"
IFmt(v, c) == IFmtCls(FmtTable[c.pat].cls[v.s], FmtTable[c.pat].end)

\* a !condition or !format line holds of v
IHolds(nu, v, c) == CASE c.c = "cond" -> ICond(nu, v, c) [] c.c = "fmt" -> IFmt(v, c)

InBounds(sh, dims) == /\ Len(sh) = Len(dims)
                      /\ \A i \in 1..Len(dims) : /\ (dims[i][1] = -1 \/ sh[i] >= dims[i][1])
                                                 /\ (dims[i][2] = -1 \/ sh[i] <= dims[i][2])

\* an array assignment respects the node's bounds and the bounds written on its own line
LineOK(a, dims) == InBounds(a.shape, dims) /\ (a.dm = <<>> \/ InBounds(a.shape, a.dm))

\* readings of a scalar program that the documentation does not separate:
\*   all      every constraint line holds of the final value
\*   lastonly of several !condition / several !format lines only the last one counts
\*   each     a !condition holds after EVERY assignment ("after each definition or modification")
Ideal3D(p) ==
  LET asg == Assigned(p) IN
  IF asg = <<>> THEN "F"                                  \* declared nodes have a value
  ELSE LET f == Last(asg) IN
  IF IsArr(p) THEN
       \* the node keeps the bounds of its definition whatever a later typed line declares; not separated:
\*       whether a non-final assignment, or the line's own declaration, must be respected as well
       Agree(B3(InBounds(f.shape, p.dims)), B3(\A i \in 1..Len(asg) : LineOK(asg[i], p.dims)))
  ELSE IF f.t = "none" THEN "U"                           \* "has a value" vs "none is a value"
  ELSE LET conds == OfKind(p.cons, "cond")
           fmts  == OfKind(p.cons, "fmt")
           opts  == IOptsAll(p.nu, f, p.cons)
           all   == AndAll3({opts} \cup {IHolds(p.nu, f, c) : c \in Range(conds) \cup Range(fmts)})
           lastonly == AndAll3({opts} \cup {IHolds(p.nu, f, c) : c \in
                                  (IF conds = <<>> THEN {} ELSE {Last(conds)})
                                  \cup (IF fmts = <<>> THEN {} ELSE {Last(fmts)})})
           vals  == {asg[i] : i \in {j \in 1..Len(asg) : asg[j].t # "none"}}
           each  == AndAll3({all} \cup {ICond(p.nu, v, c) : v \in vals, c \in Range(conds)})
       IN Agree(Agree(all, lastonly), each)

\* an imported node is a node of the environment like any other and keeps the constraint lines of its
\* definition: the ORIGINAL (never modified: its final value is the definition's) and the modified COPY
\* must both satisfy them (a remote original is judged when its source file is parsed)
\* place = "mod" with an import: the constraint lines follow the last modification of the COPY and belong to
\* the copy alone - the original keeps what its own definition carried (here: nothing)
Bare(p) == [p EXCEPT !.mods = <<>>, !.cons = <<>>, !.place = "def"]
Ideal3V(p) == IF p.via = "direct" THEN Ideal3D(p)
              ELSE IF p.place = "mod" THEN AndAll3({Ideal3D(Bare(p)), Ideal3D(p)})
              ELSE AndAll3({Ideal3D([p EXCEPT !.mods = <<>>]), Ideal3D(p)})

\* the reference node has been modified: the comparisons with it see its final value
ResolveLit(l, r) == IF l.t = "ref" THEN [l EXCEPT !.n = r.n, !.u = r.u, !.k = r.k] ELSE l
Resolve(p) ==
  IF p.refm.t = "nil" THEN p
  ELSE [p EXCEPT !.refm = Nil,
                 !.cons = [i \in 1..Len(p.cons) |->
                             IF p.cons[i].c # "cond" THEN p.cons[i]
                             ELSE [p.cons[i] EXCEPT !.atoms = [j \in 1..Len(p.cons[i].atoms) |->
                                     [p.cons[i].atoms[j] EXCEPT !.lit = ResolveLit(@, p.refm)]]]]]
\* final values decide; not separated: whether the condition had to hold before the reference changed too
Ideal3R(p) == IF p.refm.t = "nil" THEN Ideal3V(p)
              ELSE LET fin == Ideal3V(Resolve(p))  ini == Ideal3V([p EXCEPT !.refm = Nil])
                   IN Agree(fin, AndAll3({fin, ini}))
\* two parses: the environment returned by the first (definitions and constraint lines only) and the one
\* returned by the second (all modifications on top of it) must both satisfy every constraint
FirstText(p) == [p EXCEPT !.mods = <<>>, !.refm = Nil, !.split = "one"]
Ideal3(p) == IF p.split = "one" THEN Ideal3R(p) ELSE AndAll3({Ideal3R(FirstText(p)), Ideal3R(p)})

Ideal(p) == CASE Ideal3(p) = "T" -> "accept" [] Ideal3(p) = "F" -> "reject" [] OTHER -> "unspec"

\* why a program is unspecified (feature labels, for the statistics only)
AmbTags(p) ==
  LET asg == Assigned(p) IN
  IF asg = <<>> \/ Ideal3(p) # "U" THEN {}
  ELSE IF p.refm.t # "nil" \/ p.split = "two" THEN {"reference_changed_or_two_parses"}
  ELSE IF Ideal3D(p) # "U" THEN {"imported_original"}
  ELSE IF IsArr(p) THEN {"intermediate_dims"}
  ELSE IF Last(asg).t = "none" THEN {"final_none"}
  ELSE LET f == Last(asg)
           all == AndAll3({IOptsAll(p.nu, f, p.cons)}
                          \cup {IHolds(p.nu, f, c) : c \in Range(OfKind(p.cons, "cond")) \cup Range(OfKind(p.cons, "fmt"))})
       IN IF all = "U" THEN {"band"} ELSE IF all = "F" THEN {"several_conditions_or_formats"}
          ELSE {"several_or_intermediate_condition"}

-----------------------------------------------------------------------------
(*                             M A C H I N E                                *)
AllDevs == {"cond_skipped_str", "cond_skipped_bool", "bare_equality", "ne_exact", "int_literal_cast",
            "attach_last_appended", "last_condition_wins", "last_format_wins", "dims_each_assignment",
            "format_prefix_match"}

\* NumberType.__eq__ : np.isclose(l, r, rtol=1e-6) with the default atol=1e-8, values >= 1 in node units
MEq(d) == Abs(d) <= 10
\* NumberType.__ne__/__lt__/__gt__ compare exactly; __le__/__ge__ are `<` or isclose
MCmp(op, d, devs) ==
  CASE op = "==" -> MEq(d)
    [] op = "!=" -> IF "ne_exact" \in devs THEN d # 0 ELSE ~MEq(d)
    [] op = "<=" -> d < 0 \/ MEq(d)
    [] op = ">=" -> d > 0 \/ MEq(d)
    [] op = "<"  -> d < 0
    [] op = ">"  -> d > 0

\* LogicalSolver._eval_node + NumberType._prepare: the anonymous literal is converted into the
\* node's unit when it carries another one (float), then cast with the node's dtype:
\* int(float) truncates, int('3.5') raises.  -> "T" | "F" | "X" (an exception escapes)
MAtom(ty, nu, v, a, devs) ==
  IF IsNumLit(a.lit) THEN
    LET cast   == ty = "int" /\ a.lit.t = "num" /\ "int_literal_cast" \in devs
        frn    == Foreign(a.lit, nu)
        raises == cast /\ ~frn /\ (~QIsInt(a.lit.n) \/ a.lit.k # 0)
        lb     == IF cast /\ frn THEN QTrunc(Base(a.lit, nu)) ELSE Base(a.lit, nu)
        lk     == IF cast /\ frn THEN 0 ELSE a.lit.k
        dv     == Dist(Base(v, nu), v.k, lb, lk)
        d      == IF a.left = "self" THEN dv ELSE -dv
    IN IF raises THEN "X" ELSE B3(MCmp(a.op, d, devs))
  ELSE IAtom(nu, v, a)                 \* only reached with cond_skipped_* switched off

\* solve(condition).value : a condition that is one bare `==` yields numpy.bool_, `.value` raises
MCond(ty, nu, v, c, devs) ==
  LET rs == {MAtom(ty, nu, v, c.atoms[i], devs) : i \in 1..Len(c.atoms)} IN
  IF "X" \in rs THEN "X"
  ELSE IF c.join = "one" /\ c.atoms[1].op = "==" /\ IsNumLit(c.atoms[1].lit) /\ "bare_equality" \in devs THEN "X"
  ELSE IF c.join = "or" THEN OrAll3(rs) ELSE AndAll3(rs)

\* the validation loop of DIP.parse for one node that has the value v and the constraint lines cs
MNodeOK(ty, nu, v, cs, devs) ==
  LET conds == OfKind(cs, "cond")
      fmts  == OfKind(cs, "fmt")
      os    == OptVals(cs)
      condChecked == \/ ty \in {"float", "int"}
                     \/ ty = "str"  /\ "cond_skipped_str"  \notin devs
                     \/ ty = "bool" /\ "cond_skipped_bool" \notin devs
      fmtOK(c) == LET cl == FmtTable[c.pat].cls[v.s]       \* re.match: a prefix is enough
                  IN cl = "full" \/ (cl = "prefix" /\ "format_prefix_match" \in devs)
  IN \* validate_options (IntegerNode, FloatNode, StringNode)
     /\ os = {} \/ \E o \in os : IF o.t = "str" THEN v.s = o.s ELSE MEq(DistL(v, o, nu))
     \* node.condition is ONE attribute: a later !condition line overwrites the earlier one
     /\ (conds # <<>> /\ condChecked) =>
          IF "last_condition_wins" \in devs THEN MCond(ty, nu, v, Last(conds), devs) = "T"
          ELSE \A c \in Range(conds) : MCond(ty, nu, v, c, devs) = "T"
     \* node.format likewise
     /\ (ty = "str" /\ fmts # <<>>) =>
          IF "last_format_wins" \in devs THEN fmtOK(Last(fmts)) ELSE \A c \in Range(fmts) : fmtOK(c)

\* "accept" | "reject" | "na" (final none: not modelled)
MachD(p, devs) ==
  LET asg == Assigned(p) IN
  IF asg = <<>> THEN "reject"                             \* node.defined and node.value is None
  ELSE IF IsArr(p) THEN      \* cast_value checks the bounds at every assignment: a typed line is cast with its
                             \* own dimension by set_value(), then modify_value casts it again with the node's
       IF "dims_each_assignment" \in devs
       THEN (IF \A i \in 1..Len(asg) : LineOK(asg[i], p.dims) THEN "accept" ELSE "reject")
       ELSE (IF InBounds(Last(asg).shape, p.dims) THEN "accept" ELSE "reject")
  ELSE IF Last(asg).t = "none" THEN "na"
  ELSE \* property lines act on env.nodes[-1], the node appended LAST, not the node they follow
       LET toY == p.place = "mod" /\ p.by.t # "nil" /\ "attach_last_appended" \in devs
           okX == MNodeOK(p.ty, p.nu, Last(asg), IF toY THEN <<>> ELSE p.cons, devs)
           okY == p.by.t = "nil" \/ MNodeOK(p.ty, p.nu, p.by, IF toY THEN p.cons ELSE <<>>, devs)
       IN IF okX /\ okY THEN "accept" ELSE "reject"

\* ImportNode.parse copies the selected nodes (options, condition, format, dimension included) under the
\* new path and queues them; the copies are appended to target.nodes like defined nodes, modified like
\* them and pass through the same validation loop; the original stays in the environment (local) or was
\* validated by the parse of its source file (remote)
Both(o, c) == IF o = "reject" \/ c = "reject" THEN "reject" ELSE IF o = "na" \/ c = "na" THEN "na" ELSE "accept"
MachV(p, devs) ==
  IF p.via = "direct" THEN MachD(p, devs)
  ELSE IF p.place = "mod" THEN Both(MachD(Bare(p), devs), MachD(p, devs))      \* Node.copy gives the copy its own option list
  ELSE Both(MachD([p EXCEPT !.mods = <<>>], devs), MachD(p, devs))
\* the validation loop runs over ALL nodes of the target environment at the end of every parse and
\* LogicalSolver requests a fresh copy of a referenced node for every occurrence: final values decide
Mach(p, devs) ==
  IF p.split = "one" THEN MachV(Resolve(p), devs)
  ELSE Both(MachV(FirstText(p), devs), MachV(Resolve(p), devs))

\* the deviations that decide this program's machine verdict, and their feature words
Causal(p) == {d \in Devs : Mach(p, Devs) # Mach(p, Devs \ {d})}
DevWords(d) ==
  CASE d = "cond_skipped_str"     -> {"condition", "str_node"}
    [] d = "cond_skipped_bool"    -> {"condition", "bool_node"}
    [] d = "bare_equality"        -> {"condition", "bare_equality"}
    [] d = "ne_exact"             -> {"condition", "ne", "within_tolerance"}
    [] d = "int_literal_cast"     -> {"condition", "int_node", "fractional_literal"}
    [] d = "attach_last_appended" -> {"placement", "after_modification", "bystander"}
    [] OTHER                      -> {"open_band"}
\* when no single deviation decides, the pairs that together restore the ideal
CausalPairs(p) == UNION {S \in SUBSET Devs : Cardinality(S) = 2 /\ Mach(p, Devs \ S) = Ideal(p)}
Tags(p) == IF Mach(p, Devs) = Ideal(p) \/ Ideal(p) = "unspec" THEN {}
           ELSE LET cs == IF Causal(p) # {} THEN Causal(p) ELSE CausalPairs(p)
                IN IF cs = {} THEN {"joint_cause"} ELSE cs \cup UNION {DevWords(d) : d \in cs}

-----------------------------------------------------------------------------
(*                  O B L I G A T I O N S  (on accept)                      *)
(* what the harness re-checks on the data of the returned environment; all  *)
(* numbers are bases in NODE units with their ulp offset                    *)
BK(l, nu) == [b |-> Base(l, nu), k |-> l.k]
SetToSeq(S) == CHOOSE f \in [1..Cardinality(S) -> S] : \A x \in S : \E i \in 1..Cardinality(S) : f[i] = x
OblOpts(nu, cs) ==
  LET os == SetToSeq(OptVals(cs)) IN
  [o |-> "one_of", alts |-> [i \in 1..Len(os) |-> IF os[i].t = "str" THEN [s |-> os[i].s] ELSE BK(os[i], nu)]]
OblOf(nu, c) ==
  CASE c.c = "cond" -> [o |-> "cond", join |-> c.join, atoms |-> [i \in 1..Len(c.atoms) |->
                          LET a == c.atoms[i] IN
                          IF IsNumLit(a.lit) THEN [op |-> a.op, left |-> a.left, b |-> Base(a.lit, nu), k |-> a.lit.k]
                          ELSE [op |-> a.op, left |-> a.left, lit |-> a.lit]]]
    [] c.c = "fmt"  -> [o |-> "fullmatch", pat |-> c.pat]
ValOf(nu, v) == CASE v.t = "num" -> [o |-> "value", b |-> Base(v, nu), k |-> v.k, unit |-> nu]
                  [] v.t = "arr" -> [o |-> "shape", shape |-> v.shape]
                  [] OTHER       -> [o |-> "value", lit |-> v]
Obl(q) == LET p == Resolve(q)  f == Last(Assigned(q)) IN
          <<ValOf(p.nu, f)>>
          \o (IF OptVals(p.cons) = {} THEN <<>> ELSE <<OblOpts(p.nu, p.cons)>>)
          \o (LET cf == SelectSeq(p.cons, LAMBDA c : c.c # "opts") IN [i \in 1..Len(cf) |-> OblOf(p.nu, cf[i])])
          \o (IF IsArr(p) THEN <<[o |-> "bounds", dims |-> p.dims]>> ELSE <<>>)

-----------------------------------------------------------------------------
(*                            G E N E R A T O R                             *)
A == <<3, 1>>
B == <<4, 1>>
H == <<7, 2>>
Z == <<0, 1>>
IsNum(ty) == ty \in {"float", "int"}
FineKs(ty) == IF ty = "float" THEN Ks \ {0} ELSE {}
Take(s, n) == {s[i] : i \in 1..(IF n < Len(s) THEN n ELSE Len(s))}
CoarseStrs == Take(StrOrder, 2)
AllStrs    == Range(StrOrder)

Fine(l, nu) == \/ l.t = "none"
               \/ l.t = "num" /\ (l.k # 0 \/ (HasAlt2(nu) /\ l.u = Alt2(nu)) \/ ~(QEq(Base(l, nu), A) \/ QEq(Base(l, nu), B)))
               \/ l.t = "str" /\ l.s \notin CoarseStrs

\* values and options of an int node are written as integer literals (0.003 km is not one)
IntOK(ty, S) == IF ty = "int" THEN {l \in S : l.t # "num" \/ QIsInt(l.n)} ELSE S
IntOKC(ty, S) == IF ty = "int" THEN {c \in S : c.c # "opts" \/ \A i \in 1..Len(c.vals) : QIsInt(c.vals[i].n)} ELSE S
DefPool(ty, nu) ==
  CASE IsNum(ty)   -> {Num(b, nu, 0, nu) : b \in {A, B, Z}} \cup {Num(A, nu, k, nu) : k \in FineKs(ty)}
                      \cup (IF Rich THEN {None} ELSE {})
    [] ty = "str"  -> {Str(s) : s \in AllStrs}
    [] ty = "bool" -> {Bool(TRUE), Bool(FALSE)}
ModUnits(nu) == {""} \cup Range(AltSeq(nu))
ModPool(ty, nu) ==
  CASE IsNum(ty)   -> IntOK(ty, {Num(b, u, 0, nu) : b \in {A, B}, u \in ModUnits(nu)})
                      \cup {Num(A, u, k, nu) : k \in FineKs(ty), u \in {""} \cup (IF HasAlt(nu) THEN {Alt1(nu)} ELSE {})}
                      \cup {Num(Z, "", 0, nu), None}
    [] ty = "str"  -> {Str(s) : s \in AllStrs} \cup (IF Rich THEN {None} ELSE {})
    [] ty = "bool" -> {Bool(TRUE), Bool(FALSE)} \cup (IF Rich THEN {None} ELSE {})
ByPool(ty, nu) ==
  CASE IsNum(ty)   -> {Num(A, nu, 0, nu), Num(B, nu, 0, nu)}
    [] ty = "str"  -> {Str(s) : s \in CoarseStrs}
    [] ty = "bool" -> {Bool(TRUE), Bool(FALSE)}

(* constraint pools; level 3 = may appear in programs with three constraint lines,            *)
(* level 2 = with two, level 1 = only alone (keeps the product small and boundary-directed)  *)
Lines(vs) == [c |-> "opts", form |-> "lines", vals |-> vs]
List(vs)  == [c |-> "opts", form |-> "list", vals |-> vs]
At(op, left, lit) == [op |-> op, left |-> left, lit |-> lit]
One(a)       == [c |-> "cond", join |-> "one", atoms |-> <<a>>]
Two(j, a, b) == [c |-> "cond", join |-> j, atoms |-> <<a, b>>]
Fmt(pat)     == [c |-> "fmt", pat |-> pat]
Ops6 == {"==", "!=", "<", "<=", ">", ">="}

NumPool3(ty, nu) ==
  LET a0 == Num(A, "", 0, nu)  a1 == Num(A, Alt1(nu), 0, nu)  b == Num(B, nu, 0, nu)  cA == Num(A, nu, 0, nu)
  IN {Lines(<<a0>>), Lines(<<a1, b>>), List(<<Num(A, Alt1(nu), 0, nu), Num(B, Alt1(nu), 0, nu)>>),
      One(At("<=", "self", a1)), One(At(">", "self", cA))}
NumPool2(ty, nu) ==
  LET a0 == Num(A, "", 0, nu)  a1 == Num(A, Alt1(nu), 0, nu)  b == Num(B, nu, 0, nu)  cA == Num(A, nu, 0, nu)
  IN {Lines(<<a1>>), Lines(<<b>>), Lines(<<a0, Num(B, "", 0, nu)>>), List(<<a0>>), List(<<cA, b>>)}
     \cup {One(At(op, "self", a1)) : op \in Ops6}
     \cup {Two("and", At("==", "self", cA), At("<", "self", b)), Two("or", At("==", "self", a1), At("==", "self", b))}
NumPool1(ty, nu) ==
  LET a0 == Num(A, "", 0, nu)  a1 == Num(A, Alt1(nu), 0, nu)  b == Num(B, nu, 0, nu)  cA == Num(A, nu, 0, nu)
      h1 == Num(H, Alt1(nu), 0, nu)   hn == Num(H, nu, 0, nu)
      lits == {cA, a1, h1, hn} \cup (IF HasAlt2(nu) THEN {Num(A, Alt2(nu), 0, nu)} ELSE {})
  IN (IF HasAlt(nu) THEN {Lines(<<h1>>), List(<<a1>>)} ELSE {})
     \cup (IF ty = "float" THEN {Lines(<<hn>>)} ELSE {})
     \cup {List(<<a0, Num(B, "", 0, nu)>>)}
     \cup (IF HasAlt2(nu) THEN {Lines(<<Num(A, Alt2(nu), 0, nu)>>), Lines(<<Num(A, Alt2(nu), 0, nu), b>>),
                                List(<<Num(A, Alt2(nu), 0, nu), Num(B, Alt2(nu), 0, nu)>>)} ELSE {})
     \cup {One(At(op, left, l)) : op \in Ops6, left \in {"self", "lit"}, l \in lits}
     \cup {Two(j, At(op, "self", a1), a2) : j \in {"and", "or"}, op \in Ops6,
                                             a2 \in {At("<", "self", b), At("==", "lit", b)}}
     \* zero among the options, at every position, in both forms
     \cup (LET z0 == Num(Z, "", 0, nu)  zn == Num(Z, nu, 0, nu)
         IN {List(<<z0>>), List(<<z0, a0>>), List(<<a0, z0>>), List(<<cA, zn, b>>), Lines(<<z0>>), Lines(<<a0, z0>>)}
            \cup (IF HasAlt(nu) THEN {List(<<Num(Z, Alt1(nu), 0, nu), a1>>)} ELSE {}))
     \* look-alike options: the value's number in another unit, alone / beside a real option / in both forms
     \* (for nodes in m only: 3 m on the km scale, 3 ms on the s scale overflow the 32-bit rationals of NearBases in the thorough pools)
     \cup (IF nu = "m" THEN {Lines(<<Trap(A, nu)>>), Lines(<<Trap(A, nu), b>>), Lines(<<Trap(B, nu), cA>>),
                               List(<<Trap(A, nu), Trap(B, nu)>>), One(At("==", "self", Trap(A, nu)))} ELSE {})
     \* a literal written without unit is read in the node's unit (like an option or a modification)
     \cup {One(At(op, "self", l)) : op \in Ops6, l \in {a0, Num(B, "", 0, nu)}}

\* conditions that compare {?} with ANOTHER node given in a different unit, next to comparisons with
\* literals, in every order (only with coarse values)
Ref(b, u, nu) == [t |-> "ref", n |-> InUnit(b, u, nu), u |-> u, k |-> 0]
Three(j, a, b, c) == [c |-> "cond", join |-> j, atoms |-> <<a, b, c>>]
RefPool(ty, nu) ==
  IF ~HasAlt(nu) THEN {}
  ELSE LET r  == Ref(B, Alt1(nu), nu)
           rs == {At("<=", "self", r), At("<", "self", r), At(">=", "lit", r)}
           ls == {At("<", "self", Num(B, "", 0, nu)), At(">=", "self", Num(A, "", 0, nu)), At("==", "self", Num(A, nu, 0, nu))}
       IN {Two(j, x, y) : j \in {"and", "or"}, x \in rs, y \in ls}
          \cup {Two(j, y, x) : j \in {"and", "or"}, x \in rs, y \in ls}
          \cup {Three(j, At(">=", "self", Num(A, "", 0, nu)), x, At("<", "self", Num(B, "", 0, nu))) : j \in {"and", "or"}, x \in rs}
          \cup {One(x) : x \in rs}
RefmPool(ty, nu) == {Num(A, nu, 0, nu), Num(A, Alt1(nu), 0, nu), Num(B, Alt1(nu), 12, nu)} \cup {Num(<<5, 1>>, nu, 0, nu)}

StrPool3 == LET s1 == Str(StrOrder[1])  s2 == Str(StrOrder[2]) IN
  {Lines(<<s1>>), List(<<s1, s2>>), One(At("==", "self", s1)), Fmt(FmtOrder[1])}
StrPool2 == LET s1 == Str(StrOrder[1])  s2 == Str(StrOrder[2]) IN
  {Lines(<<s1, s2>>), Lines(<<s2>>), List(<<s1>>), One(At("!=", "self", s1)), One(At("==", "self", s2)),
   Two("or", At("==", "self", s1), At("==", "self", s2)), Fmt(FmtOrder[2]), Fmt(FmtOrder[3])}
StrPool1 == LET s1 == Str(StrOrder[1])  s2 == Str(StrOrder[2]) IN
  {Lines(<<Str(StrOrder[3])>>), List(<<Str(StrOrder[4]), Str(StrOrder[5])>>), One(At("!=", "self", s2)),
   One(At("==", "lit", s1)), Two("and", At("!=", "self", s1), At("!=", "self", s2))}
  \cup {Fmt(FmtOrder[i]) : i \in 4..Len(FmtOrder)}

BoolPool3 == {One(At("==", "self", Bool(TRUE)))}
BoolPool2 == {One(At("!=", "self", Bool(TRUE))), One(At("==", "self", Bool(FALSE))), One(At("is", "self", Bool(TRUE)))}
BoolPool1 == {Two("or", At("==", "self", Bool(TRUE)), At("==", "self", Bool(FALSE))),
              Two("and", At("!=", "self", Bool(FALSE)), At("==", "lit", Bool(TRUE)))}

Pool3(ty, nu) == CASE IsNum(ty) -> IntOKC(ty, NumPool3(ty, nu)) [] ty = "str" -> StrPool3 [] OTHER -> BoolPool3
Pool2(ty, nu) == CASE IsNum(ty) -> IntOKC(ty, NumPool2(ty, nu)) [] ty = "str" -> StrPool2 [] OTHER -> BoolPool2
Pool1(ty, nu) == CASE IsNum(ty) -> IntOKC(ty, NumPool1(ty, nu)) [] ty = "str" -> StrPool1 [] OTHER -> BoolPool1
Lvl(c, ty, nu) == IF c \in Pool3(ty, nu) THEN 3 ELSE IF c \in Pool2(ty, nu) THEN 2 ELSE 1
\* constant-level tables (TLC evaluates them once): per family the pool of <<constraint, level>> pairs
\* and the value pools
FamKeys == {<<f.ty, f.nu>> : f \in {g \in Families : ~g.arr}}
ConsTab == [k \in FamKeys |->
              {[c |-> x, l |-> Lvl(x, k[1], k[2]), co |-> FALSE] : x \in Pool3(k[1], k[2]) \cup Pool2(k[1], k[2]) \cup Pool1(k[1], k[2])}
              \cup (IF IsNum(k[1]) THEN {[c |-> x, l |-> 1, co |-> TRUE] : x \in RefPool(k[1], k[2])} ELSE {})]   \* co: coarse values only
HasRef(cs) == \E i \in 1..Len(cs) : cs[i].c = "cond" /\ \E j \in 1..Len(cs[i].atoms) : cs[i].atoms[j].lit.t = "ref"
DefTab  == [k \in FamKeys |-> DefPool(k[1], k[2])]
ModTab  == [k \in FamKeys |-> ModPool(k[1], k[2])]
FineTab == [k \in FamKeys |-> {l \in DefPool(k[1], k[2]) \cup ModPool(k[1], k[2]) : Fine(l, k[2])}]
IsFine(q, l) == l \in FineTab[<<q.ty, q.nu>>]

Rank(c) == CASE c.c = "opts" -> (IF c.form = "lines" THEN 1 ELSE 2) [] c.c = "cond" -> 3 [] OTHER -> 4
\* canonical order of kinds (the renderer permutes the kinds); several !condition / !format
\* lines are kept in both orders because their order matters to the machine
OrderOK(cs, c) == IF cs = <<>> THEN TRUE
                  ELSE IF Rank(c) <= 2 THEN Rank(c) > Rank(Last(cs)) ELSE Rank(c) >= Rank(Last(cs))

ValLvl(q) == IF \E l \in Range(Assigned(q)) : IsFine(q, l) THEN 1 ELSE 3
\* lvs: the levels of the constraint lines chosen so far plus the candidate's
Cap(q, lvs) == LET m == MinOf({MaxCons, ValLvl(q)} \cup lvs)
               IN IF q.by.t # "nil" \/ q.place = "mod" \/ q.via # "direct" THEN m - 1 ELSE m

(* arrays: dimension bounds *)
(* every dimension is exact [2], an interval [2:3], bounded above [:2], below [2:] or free [:];        *)
(* multi-dimensional declarations mix these forms in every order; the shapes put every single          *)
(* dimension below / on / above its bounds while the others stay at 2                                    *)
Forms1 == {<<2, 2>>, <<2, 3>>, <<-1, 2>>, <<2, -1>>, <<-1, -1>>}
Forms3 == IF Rich THEN {<<2, 2>>, <<-1, -1>>, <<-1, 3>>} ELSE {<<2, 2>>, <<-1, -1>>}
Dims1 == {<<f>> : f \in Forms1}
Dims2 == {<<f, g>> : f \in Forms1, g \in Forms1}
Dims3 == {<<f, g, h>> : f \in Forms3, g \in Forms3, h \in Forms3}
Twos(n) == [i \in 1..n |-> 2]
Cross(n) == {[Twos(n) EXCEPT ![i] = v] : i \in 1..n, v \in 1..4}
Shapes(dims) == LET n == Len(dims) IN
                Cross(n) \cup (IF n >= 2 THEN {[i \in 1..n |-> 3], Twos(n - 1)} ELSE {})   \* Twos(n-1): a dimension is missing
\* what a typed redefinition may write instead of the node's bounds: all free, exactly the shape it
\* brings, (rank 1) exactly 2
Redecl(sh, dims) == {<<>>, [i \in 1..Len(dims) |-> <<-1, -1>>], [i \in 1..Len(sh) |-> <<sh[i], sh[i]>>]}
                    \cup (IF Len(dims) = 1 THEN {<< <<2, 2>> >>} ELSE {})
DimsOf(f) == IF ~f.arr THEN {<<>>}
             ELSE Dims1 \cup (IF f.ty = "int" \/ Rich THEN Dims2 ELSE {})
                        \cup (IF f.ty = "int" THEN Dims3 ELSE {})

VARIABLES p, ph, lv      \* lv: levels of p.cons (generator bookkeeping, not part of the program)
vars == <<p, ph, lv>>

Init == p = Nil /\ ph = 0 /\ lv = {}

Start == /\ ph = 0
         /\ \E f \in Families : \E dm \in DimsOf(f) :
              \E d \in {Decl} \cup (IF f.arr THEN {ArrL(s, dm) : s \in Shapes(dm)} ELSE DefTab[<<f.ty, f.nu>>]) :
                p' = [ty |-> f.ty, nu |-> f.nu, dims |-> dm, def |-> d, mods |-> <<>>,
                      cons |-> <<>>, place |-> "def", by |-> Nil, via |-> "direct", refm |-> Nil, split |-> "one"]
         /\ ph' = 1 /\ lv' = {}

\* only the final assignment may be a fine value; two-step chains only in coarse values (none allowed between)
AddMod == /\ ph = 1 /\ Len(p.mods) < MaxMods
          /\ \A l \in Range(Assigned(p)) : (IF ~IsArr(p) /\ IsFine(p, l) THEN l.t = "none" ELSE TRUE)
          /\ IF IsArr(p)
             THEN \E s \in Shapes(p.dims) : \E rd \in Redecl(s, p.dims) :
                     /\ Len(p.dims) >= 2 => Len(p.mods) = 0       \* rank >= 2: one modification
                     /\ \A i \in 1..Len(p.mods) : p.mods[i].dm = <<>>   \* only the last line of a chain is typed
                     /\ p' = [p EXCEPT !.mods = Append(@, ArrL(s, rd))]
             ELSE \E m \in ModTab[<<p.ty, p.nu>>] :
                     /\ Len(p.mods) >= 1 => ~IsFine(p, m)
                     /\ p' = [p EXCEPT !.mods = Append(@, m)]
          /\ ph' = 1 /\ lv' = lv

Coarse(q) == \A l \in Range(Assigned(q)) : ~IsFine(q, l)
\* the node reaches the environment through an import (coarse values; arrays too)
SetVia == /\ ph = 1 /\ (IF IsArr(p) THEN TRUE ELSE Coarse(p)) /\ (IF Len(p.dims) <= 1 THEN TRUE ELSE Rich /\ \A i \in 1..Len(p.mods) : p.mods[i].dm = <<>>)
          /\ \E v \in {"local", "source"} : p' = [p EXCEPT !.via = v]
          /\ ph' = 2 /\ lv' = lv
SetBy == /\ ph = 1 /\ ~IsArr(p) /\ p.mods # <<>> /\ Coarse(p)
         /\ \E y \in ByPool(p.ty, p.nu) : p' = [p EXCEPT !.by = y]
         /\ ph' = 2 /\ lv' = lv
SetPlace == /\ ph \in {1, 2} /\ ~IsArr(p) /\ p.mods # <<>> /\ Coarse(p)
            /\ p' = [p EXCEPT !.place = "mod"]
            /\ ph' = 3 /\ lv' = lv
AddCons == /\ ph \in 1..4 /\ ~IsArr(p)
           /\ \E e \in ConsTab[<<p.ty, p.nu>>] :
                 /\ OrderOK(p.cons, e.c)
                 /\ e.co => (Coarse(p) /\ p.via = "direct" /\ p.by.t = "nil" /\ p.place = "def")
                 /\ Len(p.cons) + 1 <= Cap(p, lv \cup {e.l})
                 /\ p' = [p EXCEPT !.cons = Append(@, e.c)]
                 /\ lv' = lv \cup {e.l}
           /\ ph' = 4

\* the referenced node gets a new value (the constrained node itself is not modified then)
SetRefm == /\ ph = 4 /\ HasRef(p.cons) /\ p.mods = <<>> /\ p.def.t = "num"
           /\ \E r \in RefmPool(p.ty, p.nu) : p' = [p EXCEPT !.refm = IF p.ty = "int" THEN [r EXCEPT !.k = 0] ELSE r]
           /\ ph' = 5 /\ lv' = lv
\* the modifications become a second text parsed on top of the environment the first parse returned
\* (possibly an empty one): one constraint line of level >= 2 or a reference condition, coarse values
SetSplit == /\ ph \in {4, 5} /\ ~IsArr(p) /\ Coarse(p) /\ p.via = "direct" /\ p.by.t = "nil" /\ p.place = "def"
            /\ Len(p.cons) = 1 /\ (IF HasRef(p.cons) THEN TRUE ELSE lv \subseteq {2, 3})
            /\ p' = [p EXCEPT !.split = "two"]
            /\ ph' = 6 /\ lv' = lv

Next == Start \/ AddMod \/ SetVia \/ SetBy \/ SetPlace \/ AddCons \/ SetRefm \/ SetSplit
Spec == Init /\ [][Next]_vars

IsProgram == ph >= 1 /\ ((p.by.t # "nil" \/ p.place = "mod") => p.cons # <<>>)

-----------------------------------------------------------------------------
(*                     C H E C K S  and  E M I S S I O N                    *)
\* the machine without its named deviations IS the ideal wherever the ideal decides
DevsExplain == (IsProgram /\ Ideal(p) # "unspec") => Mach(p, {}) = Ideal(p)
\* expected to FAIL on the pinned tree (sensitivity): the machine as transcribed refines the ideal
Refines == (IsProgram /\ Ideal(p) # "unspec") => Mach(p, Devs) = Ideal(p)

Rec(q) == [p |-> q, ideal |-> Ideal(q), mach |-> Mach(q, Devs), tags |-> Tags(q), amb |-> AmbTags(q),
           obl |-> IF Ideal(q) = "accept" THEN Obl(q) ELSE <<>>]
EmitInv == (DoEmit /\ IsProgram) => PrintT(ToJson(Rec(p)))

ASSUME /\ Ks \subseteq -40..40
       /\ Devs \subseteq AllDevs
       /\ MaxCons \in 0..3 /\ MaxMods \in 0..2
       /\ Len(StrOrder) >= 5 /\ Len(FmtOrder) >= 3
=============================================================================
