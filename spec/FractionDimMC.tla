--------------------------- MODULE FractionDimMC ---------------------------
(***************************************************************************)
(* Model checking and scenario emission for FractionDim.tla.               *)
(*                                                                         *)
(* One object under test - a bare Fraction (mode "frac", one cell) or a    *)
(* Dimensions (mode "dims": two modelled components + one cell that stands *)
(* for each of the six other components, which start at zero and receive   *)
(* the same operations) - and every history of at most Depth public        *)
(* operations on it:                                                       *)
(*   observers   str, val (Fraction.value() / Dimensions.value()),         *)
(*               valdict, valnames, nodim (Dimensions only), eq            *)
(*   producers   neg, add, sub, mul, div with an operand from Operands     *)
(*               (int, (n,d) tuple, Fraction, float) or - add/sub - from   *)
(*               DimOperands (another Dimensions); the history continues   *)
(*               on the object produced.                                   *)
(* The machine cells are raw and mutated by the observers exactly as the   *)
(* code does; `iden` is the ideal's rational per cell.  Invariants:        *)
(*   Denotes             every cell denotes the ideal's rational           *)
(*   Lemmas              rebase = normal form, str agrees, value agrees     *)
(*                       unless the named deviation is in play             *)
(*   HistoryIndependent  every observation so far equals the ideal's -     *)
(*                       holds with ValueNormalises = TRUE, fails with     *)
(*                       FALSE (value() of 4/2 before and after printing). *)
(* Every complete history is printed as one JSON record with, per step,    *)
(* the ideal's observation, the machine's, and whether the deviation is in *)
(* play; the harness replays it on the real classes.                       *)
(***************************************************************************)
EXTENDS FractionDim, Json

CONSTANTS CellPool,       \* set of raw cells <<n, d>>, d # 0 (initial Fraction)
          DimPool,        \* raw cells for the two modelled components of the initial Dimensions
          Operands,       \* set of [form |-> "int"|"tuple"|"frac"|"float", p |-> <<n, d>>]  (int: d = 1)
          DimOperands,    \* set of 3-sequences of raw cells (third = the other six components)
          Depth, Modes

VARIABLES mode, cells, iden, hist, agree
vars == <<mode, cells, iden, hist, agree>>

K == Len(cells)
Idx == 1..K

Init == mode = "none" /\ cells = <<>> /\ iden = <<>> /\ hist = <<>> /\ agree = TRUE

Choose ==
  /\ mode = "none"
  /\ \/ /\ "frac" \in Modes /\ mode' = "frac" /\ \E c \in CellPool : cells' = <<c>>
     \/ /\ "dims" \in Modes /\ mode' = "dims" /\ \E c \in DimPool, d \in DimPool : cells' = <<c, d, <<0, 1>>>>
  /\ iden' = [i \in DOMAIN cells' |-> Norm(cells'[i])]
  /\ hist' = <<[op |-> "new", cells |-> cells']>>
  /\ agree' = TRUE

Room == mode # "none" /\ Len(hist) <= Depth

Log(op, o, io, mo, dv) ==
  /\ hist' = Append(hist, [op |-> op, o |-> o, iobs |-> io, mobs |-> mo, dev |-> dv])
  /\ agree' = (agree /\ io = mo)

\* ---- observers ----
Printed(c) == IF mode = "dims" /\ c[1] = 0 THEN c ELSE MRebase(c)     \* Dimensions.__str__ prints non-zero components only
Str ==
  /\ Room
  /\ cells' = [i \in Idx |-> Printed(cells[i])]
  /\ Log("str", <<>>, [i \in Idx |-> IStr(iden[i])], [i \in Idx |-> MStr(cells[i])], FALSE)
  /\ UNCHANGED <<mode, iden>>
Val(name) ==
  /\ Room /\ (name = "valdict" => mode = "dims")
  /\ cells' = [i \in Idx |-> MValCell(cells[i])]
  /\ Log(name, <<>>, [i \in Idx |-> IVal(iden[i])], [i \in Idx |-> MVal(cells[i])], \E i \in Idx : ValDev(cells[i]))
  /\ UNCHANGED <<mode, iden>>
Names ==
  /\ Room /\ mode = "dims"
  /\ Log("valnames", <<>>, [i \in Idx |-> iden[i][1] # 0], [i \in Idx |-> cells[i][1] # 0], FALSE)
  /\ UNCHANGED <<mode, cells, iden>>
NoDim ==
  /\ Room /\ mode = "dims"
  /\ Log("nodim", <<>>, \A i \in Idx : iden[i][1] = 0, \A i \in Idx : cells[i][1] = 0, FALSE)
  /\ UNCHANGED <<mode, cells, iden>>
EqFrac(o) ==                  \* == with a Fraction
  /\ Room /\ mode = "frac" /\ o.form = "frac"
  /\ Log("eq", o, IEq(iden[1], o.p), MEq(cells[1], o.p), FALSE)
  /\ UNCHANGED <<mode, cells, iden>>
EqDims(o) ==                  \* == with a Dimensions
  /\ Room /\ mode = "dims"
  /\ Log("eq", [form |-> "dims", ps |-> o], \A i \in Idx : IEq(iden[i], o[i]), \A i \in Idx : MEq(cells[i], o[i]), FALSE)
  /\ UNCHANGED <<mode, cells, iden>>

\* ---- producers ----
MOp(op, o, c) ==
  CASE op = "add" -> MAdd(c, o.p)            \* int k: other = Fraction(k) = <<k, 1>>
    [] op = "sub" -> MSub(c, o.p)
    [] op = "mul" -> IF o.form = "int" THEN MMulI(c, o.p[1]) ELSE MMul(c, o.p)
    [] op = "div" -> IF o.form = "int" THEN MDivI(c, o.p[1]) ELSE MDiv(c, o.p)
IOp(op, o, r) ==
  CASE op = "add" -> IAdd(r, o.p) [] op = "sub" -> ISub(r, o.p) [] op = "mul" -> IMul(r, o.p) [] op = "div" -> IDiv(r, o.p)
Bin(op, o) ==
  /\ Room /\ o \in Operands
  /\ (o.form = "float" => op \in {"mul", "div"})          \* the float branch exists for * and / only
  /\ (op = "div" => o.p[1] # 0)
  /\ cells' = [i \in Idx |-> MOp(op, o, cells[i])]
  /\ iden' = [i \in Idx |-> IOp(op, o, iden[i])]
  /\ Log(op, o, <<>>, <<>>, FALSE)
  /\ UNCHANGED mode
BinD(op, o) ==
  /\ Room /\ mode = "dims" /\ o \in DimOperands /\ op \in {"add", "sub"}
  /\ cells' = [i \in Idx |-> IF op = "add" THEN MAdd(cells[i], o[i]) ELSE MSub(cells[i], o[i])]
  /\ iden' = [i \in Idx |-> IF op = "add" THEN IAdd(iden[i], o[i]) ELSE ISub(iden[i], o[i])]
  /\ Log(op, [form |-> "dims", ps |-> o], <<>>, <<>>, FALSE)
  /\ UNCHANGED mode
Neg ==
  /\ Room
  /\ cells' = [i \in Idx |-> MNeg(cells[i])]
  /\ iden' = [i \in Idx |-> INeg(iden[i])]
  /\ Log("neg", <<>>, <<>>, <<>>, FALSE)
  /\ UNCHANGED mode

Next == \/ Choose \/ Str \/ Val("val") \/ Val("valdict") \/ Names \/ NoDim \/ Neg
        \/ (\E o \in Operands : EqFrac(o)) \/ (\E o \in DimOperands : EqDims(o))
        \/ \E op \in {"add", "sub", "mul", "div"} : (\E o \in Operands : Bin(op, o)) \/ (\E o \in DimOperands : BinD(op, o))
Spec == Init /\ [][Next]_vars

Denotes == \A i \in DOMAIN cells : cells[i][2] # 0 /\ Norm(cells[i]) = iden[i]
Lemmas  == \A i \in DOMAIN cells : RebaseIsNorm(cells[i]) /\ StrAgrees(cells[i]) /\ ValAgrees(cells[i])
OpLemma == \A a \in CellPool \cup DimPool, b \in CellPool \cup DimPool : OpsAgree(a, b)
HistoryIndependent == agree
\* every deviating observation is flagged as the named deviation, nothing else deviates
OnlyNamed == \A k \in DOMAIN hist : (hist[k].op # "new" /\ hist[k].iobs # hist[k].mobs) => hist[k].dev

Emit == (Len(hist) >= 2 /\ (Len(hist) = Depth + 1)) => PrintT(ToJson([mode |-> mode, hist |-> hist]))
EmitShort == (Len(hist) >= 2) => PrintT(ToJson([mode |-> mode, hist |-> hist]))
=============================================================================
