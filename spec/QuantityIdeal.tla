---------------------------- MODULE QuantityIdeal ----------------------------
(***************************************************************************)
(* C07 - the ideal: quantities are VALUES.                                 *)
(*                                                                         *)
(* An object is a record [q, u, e, dec, arr, z]:                           *)
(*   q   token of the physical quantity it stands for (a result gets a     *)
(*       fresh token; converting an object keeps its token)                *)
(*   u   the units it reports (exponent map of QuantityAlg)                *)
(*   e   token of its uncertainty (0 = none)                               *)
(*   dec / arr / z : Decimal magnitude, array magnitude, value is zero     *)
(*       (the kind of magnitude is part of what an object reports: a float  *)
(*       quantity never turns into a Decimal one by being an operand)       *)
(* Every operation of the action alphabet returns a NEW object (or a plain *)
(* Python value) and changes nothing; only the in-place methods to /       *)
(* rebase / abse(x) / rele(x) change an object, and only their receiver.   *)
(* An action is [op, x, y, arg]: x, y are object indices (0 = none), arg   *)
(* is a unit for to / value.  IStep returns the new object list, the       *)
(* index of the result object (0 = none), whether the call is refused and  *)
(* the receiver (0 = none) - the only object allowed to change.            *)
(***************************************************************************)
EXTENDS QuantityAlg

\* units of the C07 universe: dimension vector <<length, angle, power>>
HeapUnits ==
  [u \in {"m", "c:m", "k:m", "s", "deg", "rad", "d:Bm", "d:BW", "Bm", "%"} |->
     CASE u \in {"m", "c:m", "k:m"} -> [dim |-> <<1, 0, 0, 0>>, fac |-> <<>>]
       [] u = "s"                   -> [dim |-> <<0, 0, 0, 1>>, fac |-> <<>>]
       [] u \in {"deg", "rad"}      -> [dim |-> <<0, 1, 0, 0>>, fac |-> <<>>]
       [] u \in {"d:Bm", "d:BW", "Bm"} -> [dim |-> <<0, 0, 1, 0>>, fac |-> <<>>]
       [] u = "%"                   -> [dim |-> <<0, 0, 0, 0>>, fac |-> <<>>]]
LogUnits == {"d:Bm", "d:BW", "Bm"}       \* Bm: the level unit of d:Bm without its prefix (another unit factor)
SameLevelUnit(ux, uy) == ux = uy \/ {ux, uy} = {X1("d:Bm"), X1("Bm")}     \* same symbol, whatever the prefix
LengthUnits == {"m", "c:m", "k:m"}
IsLog(ex) == ExUnits(ex) \cap LogUnits # {}
URad == X1("rad")
UNone == <<>>

\* can a quantity in units u1 be expressed in units u2 (StandardUnitType / same-family logarithmic)
Convertible(u1, u2) ==
  IF IsLog(u1) \/ IsLog(u2) THEN Len(u1) = 1 /\ Len(u2) = 1 /\ IsLog(u1) /\ IsLog(u2)
  ELSE Dim(u1) = Dim(u2) \/ (u1 = UNone /\ u2 = URad)

\* all length units of an exponent map replaced by w
Subst(ex, w) == [i \in DOMAIN ex |-> IF ex[i].u \in LengthUnits THEN [u |-> w, e |-> ex[i].e] ELSE ex[i]]
OneKind(ex) == Cardinality(ExUnits(ex)) = Len(ex)
\* units an object in units u is converted to / asked for in the explored histories
\* (cm/m: a pure number written in dimensional units that cancel - only to() leaves such units on an object)
UCmPerM == << [u |-> "c:m", e |-> ROne], [u |-> "m", e |-> RInt(-1)] >>
Targets(u) ==
  IF u = UNone THEN {URad, UCmPerM}
  ELSE IF u = X1("%") THEN {UNone, UCmPerM}
  ELSE IF u = UCmPerM THEN {UNone}
  ELSE IF u = X1("deg") THEN {URad}
  ELSE IF u = URad THEN {X1("deg")}
  ELSE IF u = X1("d:Bm") THEN {X1("d:BW"), X1("Bm")}
  ELSE IF u = X1("Bm") THEN {X1("d:Bm")}
  ELSE IF u = X1("d:BW") THEN {X1("d:Bm")}
  ELSE IF ExUnits(u) \cap LengthUnits # {} /\ Cardinality(ExUnits(u) \cap LengthUnits) = 1
       THEN {Subst(u, w) : w \in LengthUnits} \ {u}
  ELSE {}

\* rebase(): units of one dimension are merged into the first of them
RECURSIVE RebaseFrom(_, _)
RebaseFrom(ex, acc) ==
  IF ex = <<>> THEN acc
  ELSE LET r == Head(ex)
           same == {i \in DOMAIN acc : UInfo[acc[i].u].dim = UInfo[r.u].dim}
       IN IF same = {} THEN RebaseFrom(Tail(ex), Append(acc, r))
          ELSE LET i == CHOOSE j \in same : TRUE
               IN RebaseFrom(Tail(ex), [acc EXCEPT ![i].e = RAdd(@, r.e)])
Rebase(ex) == ExDropZero(RebaseFrom(ex, <<>>))

-----------------------------------------------------------------------------
\* the action alphabet
QQOps == {"add", "sub", "mul", "div", "eq", "np.linspace", "np.logspace",            \* x (op) y, both quantities
          "sum2"}                                                                      \* sum([x, y]) = (0 + x) + y
NQOps == {"radd", "rsub", "rmul", "rdiv", "np.linspace_nq", "np.logspace_nq",        \* number (op) x
          "rmul1",                                                                     \* 1*x
          "radd0", "radd0f", "sum1"}              \* 0 + x, 0.0 + x, sum([x]): a plain zero is still a number, the sum a new object
QNOps == {"addn", "subn", "muln", "divn", "eqn", "np.linspace_qn", "np.logspace_qn",  \* x (op) number
          "muln1", "divn1", "addn0", "subn0"}                                          \* x*1, x/1, x+0, x-0: still operations
SinOps == {"np.sin", "np.cos", "np.tan"}
ArcOps == {"np.arcsin", "np.arccos", "np.arctan"}
KeepOps == {"neg", "np.absolute", "np.abs", "np.round", "np.floor", "np.ceil", "np.sum", "getitem"}   \* result in x's units
PowOps == {"pow2", "np.sqrt", "np.cbrt", "np.power",
           "pow1", "pow_pair11", "pow_float1", "np.power1"}        \* the trivial exponent, in four spellings
QueryOps == {"np.isnan", "np.isnat", "np.iscomplexobj", "value0", "units", "abse_get", "str"}     \* return plain values
UnaryOps == SinOps \cup ArcOps \cup KeepOps \cup PowOps \cup QueryOps \cup {"ctor_dict", "ctor_dict_abse"}
ValueOps == {"value"}                                                               \* value(arg)
InplaceOps == {"to", "rebase", "abse_set", "rele_set"}
AllPureOps == QQOps \cup NQOps \cup QNOps \cup UnaryOps \cup ValueOps
\* the NumPy functions of the documentation tables (docs/source/units/other.rst) - all must be in the alphabet
DocNumpy == {"np.sqrt", "np.cbrt", "np.power", "np.sin", "np.cos", "np.tan", "np.arcsin", "np.arccos", "np.arctan",
             "np.isnan", "np.isnat", "np.linspace", "np.logspace", "np.absolute", "np.abs", "np.round", "np.floor",
             "np.ceil", "np.iscomplexobj", "np.sum"}
ASSUME DocNumpy \subseteq AllPureOps

Act(op, x, y, arg) == [op |-> op, x |-> x, y |-> y, arg |-> arg]

PowN(op) == CASE op = "pow2" -> RInt(2) [] op = "np.sqrt" -> R(1, 2) [] op = "np.cbrt" -> R(1, 3) [] op = "np.power" -> RInt(3)
              [] op \in {"pow1", "pow_pair11", "pow_float1", "np.power1"} -> ROne

\* is the call refused (an exception) - by the ideal's reading of the documentation
\* (X, Y: the operand objects; the machine asks the same question about ITS view of the operands)
AddUnitsRefused(ux, uy) == Dim(ux) # Dim(uy) \/ ((IsLog(ux) \/ IsLog(uy)) /\ ~SameLevelUnit(ux, uy))
\* Decimal and array magnitudes cannot be combined (Decimal(ndarray) / Decimal*ndarray raise TypeError)
KindClash(X, Y) == (X.dec /\ Y.arr) \/ (X.arr /\ Y.dec)
RefusesOn(A, X, Y) ==
  IF A.op \in {"add", "sub", "mul", "div"} /\ A.y > 0 /\ KindClash(X, Y) THEN TRUE
  ELSE IF A.op \in {"pow_pair11", "pow_float1"} /\ X.dec THEN TRUE                    \* Decimal ** float
  ELSE
  CASE A.op \in {"add", "sub"} -> AddUnitsRefused(X.u, Y.u)
    [] A.op = "div" -> Y.z
    [] A.op = "mul" -> FALSE
    [] A.op = "eq" -> (~Y.z /\ ~Convertible(Y.u, X.u)) \/ X.dec \/ Y.dec
    [] A.op = "eqn" -> ~Convertible(UNone, X.u)
    [] A.op \in {"np.linspace", "np.logspace"} -> ~Convertible(Y.u, X.u) \/ X.dec \/ Y.dec
    [] A.op \in {"np.linspace_nq", "np.logspace_nq", "np.linspace_qn", "np.logspace_qn", "np.round", "rele_set"} -> X.dec
    [] A.op \in {"radd", "rsub", "addn", "subn", "addn0", "subn0", "radd0", "radd0f", "sum1"} -> ~ZeroDim(X.u) \/ IsLog(X.u)
    [] A.op = "sum2" -> ~ZeroDim(X.u) \/ IsLog(X.u) \/ ~ZeroDim(Y.u) \/ IsLog(Y.u) \/ KindClash(X, Y)
    [] A.op = "rdiv" -> X.z
    [] A.op \in SinOps -> ~Convertible(X.u, URad) \/ X.dec
    [] A.op \in ArcOps -> ~ZeroDim(X.u) \/ X.dec
    [] A.op = "np.isnat" -> TRUE
    [] A.op = "np.isnan" -> X.dec
    [] A.op = "np.cbrt" -> X.dec
    [] A.op = "getitem" -> ~X.arr
    [] A.op = "value" -> ~Convertible(X.u, A.arg)
    [] A.op = "to" -> ~Convertible(X.u, A.arg)
    [] OTHER -> FALSE
Refuses(A, io) == RefusesOn(A, io[A.x], IF A.y > 0 THEN io[A.y] ELSE io[A.x])

\* units of a result from the units of the operands (also used by the machine with ITS units)
ResUnit(A, ux, uy) ==
  CASE A.op \in {"add", "sub", "np.linspace", "np.logspace", "addn", "subn", "muln", "divn", "rmul",
                 "muln1", "divn1", "addn0", "subn0", "rmul1",
                 "np.linspace_nq", "np.logspace_nq", "np.linspace_qn", "np.logspace_qn", "ctor_dict", "ctor_dict_abse"}
         \cup KeepOps -> Cancel(ux)
    [] A.op = "mul" -> Cancel(ExMerge(ux, uy, 1))
    [] A.op = "div" -> Cancel(ExMerge(ux, uy, -1))
    [] A.op = "rdiv" -> Cancel(ExScale(ux, RInt(-1)))
    [] A.op \in {"radd", "rsub", "radd0", "radd0f", "sum1", "sum2"} \cup SinOps -> UNone
    [] A.op \in ArcOps -> URad
    [] A.op \in PowOps -> Cancel(ExScale(ux, PowN(A.op)))

HasResult(op) == op \notin QueryOps \cup ValueOps \cup InplaceOps \cup {"eq", "eqn"}

\* the new object of an operation (tok = fresh token).  The uncertainty of a result is not C07's subject; the rule
\* below only gives later in-place steps a defined starting point (NumPy functions return exact results).
ResObj(A, io, tok) ==
  LET X == io[A.x]  Y == IF A.y > 0 THEN io[A.y] ELSE [q |-> 0, u |-> UNone, e |-> 0, dec |-> FALSE, arr |-> FALSE, z |-> FALSE]
      arith == A.op \in {"add", "sub", "mul", "div", "radd", "rsub", "rmul", "rdiv", "addn", "subn", "muln", "divn", "neg", "pow2",
                         "muln1", "divn1", "addn0", "subn0", "rmul1", "pow1", "pow_pair11", "pow_float1",
                         "radd0", "radd0f", "sum1", "sum2"}
  IN [q |-> IF A.op = "ctor_dict" \/ A.op = "ctor_dict_abse" THEN X.q ELSE tok,
      u |-> ResUnit(A, X.u, Y.u),
      e |-> IF A.op = "ctor_dict" THEN X.e
            ELSE IF A.op = "ctor_dict_abse" THEN tok
            ELSE IF arith /\ (X.e # 0 \/ Y.e # 0) THEN tok ELSE 0,
      dec |-> (X.dec \/ Y.dec) /\ A.op \notin {"np.floor", "np.ceil"},
      arr |-> IF A.op = "np.sum" THEN FALSE
              ELSE IF A.op \in {"np.linspace", "np.logspace", "np.linspace_nq", "np.logspace_nq", "np.linspace_qn", "np.logspace_qn"}
                   THEN TRUE ELSE X.arr \/ Y.arr,
      z |-> (A.op = "sub" /\ A.x = A.y) \/ (A.op \in {"mul", "muln", "rmul", "neg", "np.abs", "np.absolute", "muln1", "divn1", "rmul1"} /\ (X.z \/ Y.z))]

\* the ideal step
IStep(A, io, tok) ==
  IF Refuses(A, io) THEN [io |-> io, res |-> 0, raises |-> TRUE, recv |-> 0]
  ELSE IF A.op \in InplaceOps THEN
     [io |-> CASE A.op = "to" -> [io EXCEPT ![A.x].u = A.arg]
               [] A.op = "rebase" -> [io EXCEPT ![A.x].u = Rebase(@)]
               [] A.op \in {"abse_set", "rele_set"} -> [io EXCEPT ![A.x].e = tok],
      res |-> 0, raises |-> FALSE, recv |-> A.x]
  ELSE IF HasResult(A.op) THEN [io |-> Append(io, ResObj(A, io, tok)), res |-> Len(io) + 1, raises |-> FALSE, recv |-> 0]
  ELSE [io |-> io, res |-> 0, raises |-> FALSE, recv |-> 0]
=============================================================================
