---------------------------- MODULE UnitExprGen ----------------------------
(***************************************************************************)
(* C03 (ii): expression level, three sources of scenarios.                 *)
(*                                                                         *)
(* Source = "enum"    every token string of length <= MaxLen over          *)
(*                    * / ( ) and atoms (no two atoms side by side);       *)
(*                    ShapeRefines: the solver machine with the table      *)
(*                    {par, mul, truediv} builds the ideal tree and raises *)
(*                    on the listed ill-formed classes.  Emits shapes.     *)
(* Source = "grammar" every well-formed shape with <= MaxAtoms atoms times *)
(*                    every assignment of Pool atoms; Algebra: machine map *)
(*                    = ideal map, numeric factors equal, Reparse(Render)  *)
(*                    = identity, atoms read back as themselves.           *)
(* Source = "file"    cases concretised by the harness with live table     *)
(*                    indices (IOEnv.UEXPR_IN); TLC computes text, class,  *)
(*                    expected units, exact dimensions, factor term and    *)
(*                    the machine's outcome, and emits one record each.    *)
(***************************************************************************)
EXTENDS UnitExpr, TLC, Json, IOUtils

CONSTANTS Source, MaxLen, MaxAtoms, Pool, KnownDevs, Emit

(* ---- grammar shapes: E ::= T | E op T ;  T ::= a | ( E op T ) *)
RECURSIVE ExprsN(_), TermsN(_), ChainsN(_)
ChainsN(n) == UNION {{e \o <<op>> \o t : e \in ExprsN(k), t \in TermsN(n - k), op \in {"*", "/"}} : k \in 1..(n - 1)}
TermsN(n)  == (IF n = 1 THEN {<<"a">>} ELSE {}) \cup {<<"(">> \o e \o <<")">> : e \in ChainsN(n)}
ExprsN(n)  == TermsN(n) \cup ChainsN(n)
RECURSIVE Rename(_, _)
Rename(s, i) == IF s = <<>> THEN <<>>
                ELSE IF Head(s) = "a" THEN <<AtomName(i)>> \o Rename(Tail(s), i + 1)
                ELSE <<Head(s)>> \o Rename(Tail(s), i)
ExtraShapes == { <<"(", "a", ")">>, <<"a", "/", "(", "a", ")">>, <<"(", "(", "a", "*", "a", ")", ")">>, <<"(", "a", ")", "*", "a">> }
GrammarShapes == TLCEval({Rename(s, 1) : s \in (UNION {ExprsN(n) : n \in 1..MaxAtoms}) \cup ExtraShapes})

FileCases == IF Source = "file" THEN JsonDeserialize(IOEnv.UEXPR_IN) ELSE <<>>
NFile == Len(FileCases)
Stride == 64
FileVal(a) == IF a.k = "n" THEN NumVal(a.mant, a.e10)
              ELSE IF a.k = "t" THEN TextVal(a.c)
              ELSE UnitVal(<<a.k, a.p, a.u>>, QNorm(<<a.en, a.ed>>))
FileVals(c) == [i \in 1..Len(c.atoms) |-> FileVal(c.atoms[i])]

VARIABLES v_shape, v_vals, v_idx
\* constant-level caches (TLC evaluates them once): per grammar shape and per pool atom
ShapeCache == TLCEval([s \in GrammarShapes |-> [c |-> ShapeClass(s), it |-> I!Ideal(s), mt |-> MTree(s)]])
PoolCache  == TLCEval([k \in 1..Len(Pool) |-> [i |-> IdealAtom(AtomText(Pool[k])), m |-> MachAtom(AtomText(Pool[k]))]])
PoolIdx(v) == CHOOSE k \in 1..Len(Pool) : Pool[k] = v
CurIdeal == IF Source = "grammar"
            THEN IdealW(ShapeCache[v_shape].c, ShapeCache[v_shape].it, [i \in 1..Len(v_vals) |-> PoolCache[PoolIdx(v_vals[i])].i])
            ELSE Ideal(v_shape, v_vals)
CurMachine == IF Source = "grammar"
              THEN MachineW(ShapeCache[v_shape].mt, [i \in 1..Len(v_vals) |-> PoolCache[PoolIdx(v_vals[i])].m])
              ELSE Machine(v_shape, v_vals)

Init == CASE Source = "enum"    -> v_shape = <<>> /\ v_vals = <<>> /\ v_idx = 0
          [] Source = "grammar" -> v_shape \in GrammarShapes /\ v_vals = <<>> /\ v_idx = 0
          [] Source = "file"    -> v_idx \in 1..(IF NFile < Stride THEN NFile ELSE Stride)
                                   /\ v_shape = FileCases[v_idx].shape /\ v_vals = FileVals(FileCases[v_idx])

Next == CASE Source = "enum" ->
               /\ Len(v_shape) < MaxLen
               /\ \E t \in {"*", "/", "(", ")", "a"} :
                     /\ ~(t = "a" /\ v_shape # <<>> /\ v_shape[Len(v_shape)] \in AtomToks)
                     /\ v_shape' = Append(v_shape, IF t = "a" THEN AtomName(NAtoms(v_shape) + 1) ELSE t)
               /\ v_vals' = IF NAtoms(v_shape') > Len(v_vals) THEN Append(v_vals, Pool[1]) ELSE v_vals
               /\ v_idx' = v_idx
          [] Source = "grammar" ->
               /\ Len(v_vals) < NAtoms(v_shape)
               /\ \E k \in 1..Len(Pool) : v_vals' = Append(v_vals, Pool[k])
               /\ UNCHANGED <<v_shape, v_idx>>
          [] Source = "file" ->
               /\ v_idx + Stride <= NFile /\ v_idx' = v_idx + Stride
               /\ v_shape' = FileCases[v_idx'].shape /\ v_vals' = FileVals(FileCases[v_idx'])

Complete == Len(v_vals) = NAtoms(v_shape)

(* ---- feature tags of a scenario *)
\* what the atoms' TEXTS mean decides the features
Tags == IF Source = "grammar" THEN UNION {OutTags(PoolCache[PoolIdx(v_vals[i])].i) : i \in 1..Len(v_vals)}
        ELSE UNION {AtomTextTags(AtomText(v_vals[i])) : i \in 1..Len(v_vals)}
Known == Tags \cap KnownDevs # {}

(* ---- design-level checks *)
PoolRoundTrip == \A k \in 1..Len(Pool) : AtomRoundTrip(Pool[k])
ShapeRefines ==
  Source = "enum" =>
    LET c == ShapeClass(v_shape) IN
    /\ c = "wellformed" => MTree(v_shape) = I!Ideal(v_shape)
    /\ c \in {"ill:unbalanced", "ill:missing_operand"} => MTree(v_shape) = M!MERR

Algebra ==
  Source \in {"grammar", "file"} /\ Complete =>
    LET i == CurIdeal  m == CurMachine IN
    /\ i.cls = "wellformed" /\ ~Known =>
          /\ ~m.err
          /\ MapSet(m.units) = MapSet(i.units)
          /\ m.num = i.num
    /\ i.cls = "wellformed" =>
          /\ (IF Source = "grammar" THEN PoolRoundTrip ELSE \A k \in 1..Len(v_vals) : AtomRoundTrip(v_vals[k]))
          /\ LET rp == Reparse(Render(i.units)) IN rp.ok /\ rp.m = MapSet(i.units)
          \* dimensions are additive over the entries, whatever the order
          /\ DimSum(i.units) = DimSum(m.units) \/ Known
    /\ MustReject(i.cls) /\ ~Known => m.err

(* ---- emission *)
UnitsJson(m) == [k \in 1..Len(m) |-> [p |-> IdP(m[k][1]), u |-> IdU(m[k][1]), e |-> m[k][2]]]
\* an unmatched `)` is no operator for the code's tokenizer: it becomes part of the atom text that follows,
\* i.e. a foreign character in front of that atom's symbol
CloseBeforeAtom(s) == \E i \in 1..Len(s) : \E j \in (i + 1)..Len(s) :
                         s[i] = ")" /\ s[j] \in AtomToks /\ \A k \in i..(j - 1) : s[k] = ")"
ShapeTags(s) == IF ShapeClass(s) = "ill:unbalanced" /\ CloseBeforeAtom(s) THEN {"foreign_lead_char"} ELSE {}
ShapeRecord == [shape |-> v_shape, cls |-> ShapeClass(v_shape), natoms |-> NAtoms(v_shape), tags |-> ShapeTags(v_shape)]
CaseRecord ==
  LET i == CurIdeal  m == CurMachine IN
  [id |-> v_idx, text |-> Join(ShapeText(v_shape, v_vals)), cls |-> i.cls, units |-> UnitsJson(i.units),
   dims |-> DimSum(i.units), factor |-> FactorTerm(i.units), num |-> NumTerm(i.num),
   render |-> Join(Render(i.units)), mach_err |-> m.err, mach_units |-> UnitsJson(m.units),
   mach_render |-> Join(Render(m.units)), tags |-> Tags \cup ShapeTags(v_shape), known |-> Known]

EmitInv == Emit =>
   CASE Source = "enum"    -> PrintT(ToJson(ShapeRecord))
     [] Source = "grammar" -> (v_vals = <<>> => PrintT(ToJson(ShapeRecord)))
     [] Source = "file"    -> PrintT(ToJson(CaseRecord))
=============================================================================
