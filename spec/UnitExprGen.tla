---------------------------- MODULE UnitExprGen ----------------------------
(***************************************************************************)
(* C03 (ii): expression level, three sources of scenarios.                 *)
(*                                                                         *)
(* Source = "enum"    every token string of length <= MaxLen over          *)
(*                    * / ( ) and atoms (no two atoms side by side);       *)
(*                    ShapeRefines: the solver machine with the table      *)
(*                    {par, mul, truediv} builds the ideal tree and raises *)
(*                    on the listed ill-formed classes.  Emits shapes.     *)
(* Source = "grammar" every well-formed shape with <= MaxAtoms atoms times *)
(*                    every assignment of Pool atoms; Algebra: machine map *)
(*                    = ideal map, numeric factors equal, Reparse(Render)  *)
(*                    = identity, atoms read back as themselves.           *)
(* Source = "file"    cases concretised by the harness with live table     *)
(*                    indices (IOEnv.UEXPR_IN); TLC computes text, class,  *)
(*                    expected units, exact dimensions, factor term and    *)
(*                    the machine's outcome, and emits one record each.    *)
(***************************************************************************)
EXTENDS UnitExpr, TLC, Json, IOUtils

CONSTANTS Source, MaxLen, MaxAtoms, Pool, KnownDevs, Emit

(* ---- grammar shapes: E ::= T | E op T ;  T ::= a | ( E op T ) *)
RECURSIVE ExprsN(_), TermsN(_), ChainsN(_)
ChainsN(n) == UNION {{e \o <<op>> \o t : e \in ExprsN(k), t \in TermsN(n - k), op \in {"*", "/"}} : k \in 1..(n - 1)}
TermsN(n)  == (IF n = 1 THEN {<<"a">>} ELSE {}) \cup {<<"(">> \o e \o <<")">> : e \in ChainsN(n)}
ExprsN(n)  == TermsN(n) \cup ChainsN(n)
RECURSIVE Rename(_, _)
Rename(s, i) == IF s = <<>> THEN <<>>
                ELSE IF Head(s) = "a" THEN <<AtomName(i)>> \o Rename(Tail(s), i + 1)
                ELSE <<Head(s)>> \o Rename(Tail(s), i)
ExtraShapes == { <<"(", "a", ")">>, <<"a", "/", "(", "a", ")">>, <<"(", "(", "a", "*", "a", ")", ")">>, <<"(", "a", ")", "*", "a">> }
GrammarShapes == TLCEval({Rename(s, 1) : s \in (UNION {ExprsN(n) : n \in 1..MaxAtoms}) \cup ExtraShapes})

FileCases == IF Source = "file" THEN JsonDeserialize(IOEnv.UEXPR_IN) ELSE <<>>
NFile == Len(FileCases)
Stride == 64
FileVal(a) == IF a.k = "n" THEN NumVal(a.mant, a.e10)
              ELSE IF a.k = "t" THEN TextVal(a.c)
              ELSE UnitVal(<<a.k, a.p, a.u>>, QNorm(<<a.en, a.ed>>))
FileVals(c) == [i \in 1..Len(c.atoms) |-> FileVal(c.atoms[i])]

VARIABLES shape, vals, idx
\* constant-level caches (TLC evaluates them once): per grammar shape and per pool atom
ShapeCache == TLCEval([s \in GrammarShapes |-> [c |-> ShapeClass(s), it |-> I!Ideal(s), mt |-> MTree(s)]])
PoolCache  == TLCEval([k \in 1..Len(Pool) |-> [i |-> IdealAtom(AtomText(Pool[k])), m |-> MachAtom(AtomText(Pool[k]))]])
PoolIdx(v) == CHOOSE k \in 1..Len(Pool) : Pool[k] = v
CurIdeal == IF Source = "grammar"
            THEN IdealW(ShapeCache[shape].c, ShapeCache[shape].it, [i \in 1..Len(vals) |-> PoolCache[PoolIdx(vals[i])].i])
            ELSE Ideal(shape, vals)
CurMachine == IF Source = "grammar"
              THEN MachineW(ShapeCache[shape].mt, [i \in 1..Len(vals) |-> PoolCache[PoolIdx(vals[i])].m])
              ELSE Machine(shape, vals)

Init == CASE Source = "enum"    -> shape = <<>> /\ vals = <<>> /\ idx = 0
          [] Source = "grammar" -> shape \in GrammarShapes /\ vals = <<>> /\ idx = 0
          [] Source = "file"    -> idx \in 1..(IF NFile < Stride THEN NFile ELSE Stride)
                                   /\ shape = FileCases[idx].shape /\ vals = FileVals(FileCases[idx])

Next == CASE Source = "enum" ->
               /\ Len(shape) < MaxLen
               /\ \E t \in {"*", "/", "(", ")", "a"} :
                     /\ ~(t = "a" /\ shape # <<>> /\ shape[Len(shape)] \in AtomToks)
                     /\ shape' = Append(shape, IF t = "a" THEN AtomName(NAtoms(shape) + 1) ELSE t)
               /\ vals' = IF NAtoms(shape') > Len(vals) THEN Append(vals, Pool[1]) ELSE vals
               /\ idx' = idx
          [] Source = "grammar" ->
               /\ Len(vals) < NAtoms(shape)
               /\ \E k \in 1..Len(Pool) : vals' = Append(vals, Pool[k])
               /\ UNCHANGED <<shape, idx>>
          [] Source = "file" ->
               /\ idx + Stride <= NFile /\ idx' = idx + Stride
               /\ shape' = FileCases[idx'].shape /\ vals' = FileVals(FileCases[idx'])

Complete == Len(vals) = NAtoms(shape)

(* ---- feature tags of a scenario *)
\* what the atoms' TEXTS mean decides the features
Tags == IF Source = "grammar" THEN UNION {OutTags(PoolCache[PoolIdx(vals[i])].i) : i \in 1..Len(vals)}
        ELSE UNION {AtomTextTags(AtomText(vals[i])) : i \in 1..Len(vals)}
Known == Tags \cap KnownDevs # {}

(* ---- design-level checks *)
PoolRoundTrip == \A k \in 1..Len(Pool) : AtomRoundTrip(Pool[k])
ShapeRefines ==
  Source = "enum" =>
    LET c == ShapeClass(shape) IN
    /\ c = "wellformed" => MTree(shape) = I!Ideal(shape)
    /\ c \in {"ill:unbalanced", "ill:missing_operand"} => MTree(shape) = M!MERR

Algebra ==
  Source \in {"grammar", "file"} /\ Complete =>
    LET i == CurIdeal  m == CurMachine IN
    /\ i.cls = "wellformed" /\ ~Known =>
          /\ ~m.err
          /\ MapSet(m.units) = MapSet(i.units)
          /\ m.num = i.num
    /\ i.cls = "wellformed" =>
          /\ (IF Source = "grammar" THEN PoolRoundTrip ELSE \A k \in 1..Len(vals) : AtomRoundTrip(vals[k]))
          /\ LET rp == Reparse(Render(i.units)) IN rp.ok /\ rp.m = MapSet(i.units)
          \* dimensions are additive over the entries, whatever the order
          /\ DimSum(i.units) = DimSum(m.units) \/ Known
    /\ MustReject(i.cls) /\ ~Known => m.err

(* ---- emission *)
UnitsJson(m) == [k \in 1..Len(m) |-> [p |-> IdP(m[k][1]), u |-> IdU(m[k][1]), e |-> m[k][2]]]
\* an unmatched `)` is no operator for the code's tokenizer: it becomes part of the atom text that follows,
\* i.e. a foreign character in front of that atom's symbol
CloseBeforeAtom(s) == \E i \in 1..Len(s) : \E j \in (i + 1)..Len(s) :
                         s[i] = ")" /\ s[j] \in AtomToks /\ \A k \in i..(j - 1) : s[k] = ")"
ShapeTags(s) == IF ShapeClass(s) = "ill:unbalanced" /\ CloseBeforeAtom(s) THEN {"foreign_lead_char"} ELSE {}
ShapeRecord == [shape |-> shape, cls |-> ShapeClass(shape), natoms |-> NAtoms(shape), tags |-> ShapeTags(shape)]
CaseRecord ==
  LET i == CurIdeal  m == CurMachine IN
  [id |-> idx, text |-> Join(ShapeText(shape, vals)), cls |-> i.cls, units |-> UnitsJson(i.units),
   dims |-> DimSum(i.units), factor |-> FactorTerm(i.units), num |-> NumTerm(i.num),
   render |-> Join(Render(i.units)), mach_err |-> m.err, mach_units |-> UnitsJson(m.units),
   mach_render |-> Join(Render(m.units)), tags |-> Tags \cup ShapeTags(shape), known |-> Known]

EmitInv == Emit =>
   CASE Source = "enum"    -> PrintT(ToJson(ShapeRecord))
     [] Source = "grammar" -> (vals = <<>> => PrintT(ToJson(ShapeRecord)))
     [] Source = "file"    -> PrintT(ToJson(CaseRecord))
=============================================================================
