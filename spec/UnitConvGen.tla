---------------------------- MODULE UnitConvGen ----------------------------
(***************************************************************************)
(* C04: the complete decision table and the scenario source.               *)
(*                                                                         *)
(* Source = "table"     all ordered pairs (u, v) of live table units, u    *)
(*                      including "no unit": ideal rule, machine rule,     *)
(*                      lemmas (Symmetric, Composition, ValueModel).       *)
(* Source = "compound"  sides with <= 2 entries over the sub-table Sub     *)
(*                      with exponents Exps, at most 3 entries in total.   *)
(* Source = "file"      pairs of sides chosen by the harness (prefixed     *)
(*                      variants), IOEnv.UCONV_IN.                         *)
(***************************************************************************)
EXTENDS UnitConv, TLC, Json, IOUtils

CONSTANTS Source, Sub, Exps, KnownDevs, Emit

FileCases == IF Source = "file" THEN JsonDeserialize(IOEnv.UCONV_IN) ELSE <<>>
NFile == Len(FileCases)
Stride == 64
FileSide(s) == [i \in 1..Len(s) |-> << <<s[i].k, s[i].p, s[i].u>>, QNorm(<<s[i].en, s[i].ed>>)>>]

\* sides over the sub-table: one or two entries, ids in increasing position order
SubId(i) == <<"u", IF Sub[i].p = "" THEN 0 ELSE PIdx(Sub[i].p), UIdx(Sub[i].u)>>
Sides1 == {<< <<SubId(i), e>> >> : i \in 1..Len(Sub), e \in Exps}
Sides2 == UNION {{<< <<SubId(pr[1]), e>>, <<SubId(pr[2]), f>> >> : e \in Exps, f \in Exps} :
                    pr \in {x \in (1..Len(Sub)) \X (1..Len(Sub)) : x[1] < x[2]}}
SidesLE(n) == (IF n >= 0 THEN {<<>>} ELSE {}) \cup (IF n >= 1 THEN Sides1 ELSE {}) \cup (IF n >= 2 THEN Sides2 ELSE {})

VARIABLES v_a, v_b, v_st, v_idx      \* v_st: "a" = side A chosen, "ab" = both chosen (leaf)

Init == CASE Source = "table"    -> v_st = "a" /\ v_b = <<>> /\ v_idx = 0 /\ \E u \in 0..NU : v_a = UMap(u)
          [] Source = "compound" -> v_st = "a" /\ v_b = <<>> /\ v_idx = 0 /\ v_a \in SidesLE(2)
          [] Source = "file"     -> v_st = "ab" /\ v_idx \in 1..(IF NFile < Stride THEN NFile ELSE Stride)
                                    /\ v_a = FileSide(FileCases[v_idx].a) /\ v_b = FileSide(FileCases[v_idx].b)
Next == CASE Source = "table"    -> v_st = "a" /\ v_st' = "ab" /\ \E v \in 1..NU : v_b' = UMap(v) /\ UNCHANGED <<v_a, v_idx>>
          [] Source = "compound" -> v_st = "a" /\ v_st' = "ab" /\ v_b' \in (SidesLE(3 - Len(v_a)) \ {<<>>}) /\ UNCHANGED <<v_a, v_idx>>
          [] Source = "file"     -> v_idx + Stride <= NFile /\ v_idx' = v_idx + Stride /\ v_st' = "ab"
                                    /\ v_a' = FileSide(FileCases[v_idx'].a) /\ v_b' = FileSide(FileCases[v_idx'].b)

Leaf == v_st = "ab"
UOf(A) == IF A = <<>> THEN 0 ELSE A[1][1][3]

(* ---- lemmas *)
\* the machine's dispatch agrees with the ideal rule except on the named deviations
C04Rules == {"linear", "inverse", "nounit_rad", "reject"}
Refines == Leaf /\ Rule(v_a, v_b) \in C04Rules => (Agrees(Rule(v_a, v_b), MRule(v_a, v_b)) \/ ConvTags(v_a, v_b) \cap KnownDevs # {})
\* the rule is symmetric (the one-directional number -> radian case apart)
Symmetric == Leaf /\ v_a # <<>> /\ v_b # <<>> =>
     \/ Rule(v_a, v_b) = Rule(v_b, v_a)
     \/ "nounit_rad" \in {Rule(v_a, v_b), Rule(v_b, v_a)}
     \/ Fold(v_a) # v_a \/ Fold(v_b) # v_b            \* only a SOURCE is folded to a bare number, a target text is not
     \/ {Rule(v_a, v_b), Rule(v_b, v_a)} \subseteq {"log:log_lin", "log:lin_log", "log:log_ratio", "log:ratio_log", "log:b_np", "log:np_b", "log:log_same", "log:log_offset"}
\* table source: the fast single-unit rule is the general rule; linear is an equivalence; inverse o inverse = linear
Composition ==
  Source = "table" /\ Leaf => LET u == UOf(v_a)  v == UOf(v_b) IN
     /\ Plain(u) /\ Plain(v) => SRule(u, v) = Rule(v_a, v_b)
     /\ Plain(u) => SRule(u, u) = "linear"
     /\ Plain(u) /\ Plain(v) => \A w \in 1..NU : w \notin Related(v) /\ Plain(w) => SRule(v, w) \notin {"linear", "inverse"}
     /\ Plain(u) /\ Plain(v) => \A w \in Related(v) :
          /\ SRule(u, v) = "linear"  /\ SRule(v, w) = "linear"  => SRule(u, w) = "linear"
          /\ SRule(u, v) = "inverse" /\ SRule(v, w) = "inverse" => SRule(u, w) = "linear"
          /\ SRule(u, v) = "linear"  /\ SRule(v, w) = "inverse" => SRule(u, w) = "inverse"
          /\ SRule(u, v) = "inverse" /\ SRule(v, w) = "linear"  => SRule(u, w) = "inverse"
\* the value obligations are consistent on the exact model (factors that are powers of ten, rational magnitudes):
\* reversible, and independent of the path
ValueModel ==
  Source = "table" /\ Leaf => LET u == UOf(v_a)  v == UOf(v_b)  r == SRule(u, v) IN
     Plain(u) /\ Plain(v) /\ FExact(u) /\ FExact(v) /\ r \in {"linear", "inverse"} /\ u > 0 =>
        \A x \in ModelXs :
           /\ ConvQ(SRule(v, u), ConvQ(r, x, u, v), v, u) = x
           /\ \A w \in Related(u) : FExact(w) /\ SRule(u, w) \in {"linear", "inverse"} =>
                 ConvQ(SRule(w, v), ConvQ(SRule(u, w), x, u, w), w, v) = ConvQ(r, x, u, v)

(* ---- emission *)
SideJson(A) == [k \in 1..Len(A) |-> [p |-> IdP(A[k][1]), u |-> IdU(A[k][1]), e |-> A[k][2]]]
Record ==
  LET r == Rule(v_a, v_b)  m == MRule(v_a, v_b) IN
  [id |-> v_idx, a |-> Join(Render(v_a)), b |-> Join(Render(v_b)), sa |-> SideJson(v_a), sb |-> SideJson(v_b),
   rule |-> r, mrule |-> m, back |-> IF v_a = <<>> THEN "none" ELSE Rule(v_b, v_a), expect |-> ExpectTerm(r, v_a, v_b), expect_qt |-> QTargetTerm(r, v_a, v_b), inter |-> InterTerm(v_a),
   tags |-> ConvTags(v_a, v_b), known |-> ConvTags(v_a, v_b) \cap KnownDevs # {}, agrees |-> Agrees(r, m)]
Header == [magnitudes |-> Magnitudes, array |-> ArrayMags, zeros |-> ZeroMags, zeroarray |-> ZeroArray, kinds |-> MagKinds,
           target_mags |-> TargetMags, uncertainties |-> Uncertainties]
EmitInv == Emit /\ Leaf => PrintT(ToJson(Record))
EmitHeader == Emit /\ v_st = "a" /\ v_a = <<>> => PrintT(ToJson(Header))
=============================================================================
