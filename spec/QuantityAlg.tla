---------------------------- MODULE QuantityAlg ----------------------------
(***************************************************************************)
(* C06 - the ideal algebra of quantities (pure definitions, no state).     *)
(*                                                                         *)
(* A quantity is  [v |-> rational, ex |-> exponent map].  An exponent map  *)
(* is a sequence of [u |-> unit id, e |-> rational # 0] in which a unit    *)
(* occurs at most once (the order is insertion order and carries no        *)
(* meaning; the harness compares maps).  UInfo gives for every unit id its *)
(* base-dimension vector (integers) and, for the exact-ratio family used   *)
(* in enumerations, its factor to base dimensions as an exact rational.    *)
(*                                                                         *)
(* What the property says, operation by operation (Ideal):                 *)
(*   add/sub : refused when the dimensions differ; otherwise the left      *)
(*             operand's units, base value = sum/difference of base values *)
(*   mul/div : exponents add / subtract, base values multiply / divide     *)
(*   pow     : exponents times n, base value to the power n, n a rational  *)
(*             however it is written (int, pair, float, Fraction, numpy)  *)
(*   neg     : same units, base value negated                              *)
(*   Cancel  : when the total dimension of a result is zero every unit     *)
(*             that is itself dimensional is dropped (its factor is then   *)
(*             part of the number); dimensionless named units stay         *)
(* Numbers the spec cannot compute (non-table factors, fractional powers)  *)
(* are emitted as terms and evaluated by the harness.                      *)
(*                                                                         *)
(* MachPowEx is the one place where the code is transcribed: a float       *)
(* exponent goes through int() in Fraction.__mul__ (named deviation        *)
(* float_exponent_truncated).                                              *)
(***************************************************************************)
EXTENDS QuantityRat, FiniteSets

CONSTANT UInfo      \* [unit id -> [dim |-> <<int,...>>, fac |-> rational or <<>>]]

NDim == Len(UInfo[CHOOSE u \in DOMAIN UInfo : TRUE].dim)

\* the exact-ratio family (factor to base dimensions; dimension vector in the library's order m g s K C cd mol rad)
DV(m, g, s_, rad) == <<m, g, s_, 0, 0, 0, 0, rad>>
ExactUnits ==
  [u \in {"m", "c:m", "k:m", "s", "m:s", "g", "k:g", "%", "rad", "m:rad"} |->
     CASE u = "m"   -> [dim |-> DV(1, 0, 0, 0), fac |-> <<1, 1>>]
       [] u = "c:m" -> [dim |-> DV(1, 0, 0, 0), fac |-> <<1, 100>>]
       [] u = "k:m" -> [dim |-> DV(1, 0, 0, 0), fac |-> <<1000, 1>>]
       [] u = "s"   -> [dim |-> DV(0, 0, 1, 0), fac |-> <<1, 1>>]
       [] u = "m:s" -> [dim |-> DV(0, 0, 1, 0), fac |-> <<1, 1000>>]
       [] u = "g"   -> [dim |-> DV(0, 1, 0, 0), fac |-> <<1, 1>>]
       [] u = "k:g" -> [dim |-> DV(0, 1, 0, 0), fac |-> <<1000, 1>>]
       [] u = "%"   -> [dim |-> DV(0, 0, 0, 0), fac |-> <<1, 100>>]
       [] u = "rad" -> [dim |-> DV(0, 0, 0, 1), fac |-> <<1, 1>>]
       [] u = "m:rad" -> [dim |-> DV(0, 0, 0, 1), fac |-> <<1, 1000>>]]

-----------------------------------------------------------------------------
\* exponent maps
X1(u) == << [u |-> u, e |-> ROne] >>
XP(u, n) == << [u |-> u, e |-> RInt(n)] >>
ExUnits(ex) == {ex[i].u : i \in DOMAIN ex}
ExGet(ex, u) == IF u \in ExUnits(ex) THEN ex[CHOOSE i \in DOMAIN ex : ex[i].u = u].e ELSE RZero
NonZero(r) == ~RIsZero(r.e)
ExDropZero(ex) == SelectSeq(ex, NonZero)
ExScale(ex, k) == ExDropZero([i \in DOMAIN ex |-> [u |-> ex[i].u, e |-> RMul(ex[i].e, k)]])
\* a + sign * b
ExMerge(a, b, sign) ==
  LET upd == [i \in DOMAIN a |-> [u |-> a[i].u, e |-> RAdd(a[i].e, RMul(RInt(sign), ExGet(b, a[i].u)))]]
      NotInA(r) == r.u \notin ExUnits(a)
      new == SelectSeq(b, NotInA)
      newS == [i \in DOMAIN new |-> [u |-> new[i].u, e |-> RMul(RInt(sign), new[i].e)]]
  IN ExDropZero(upd \o newS)
ExAsSet(ex) == {ex[i] : i \in DOMAIN ex}
ExSame(a, b) == ExAsSet(a) = ExAsSet(b)

Dim(ex) == [k \in 1..NDim |-> RSumSeq([i \in DOMAIN ex |-> RMul(ex[i].e, RInt(UInfo[ex[i].u].dim[k]))])]
ZeroDim(ex) == \A k \in 1..NDim : RIsZero(Dim(ex)[k])
UnitDimensional(u) == \E k \in 1..NDim : UInfo[u].dim[k] # 0
NotDimensional(r) == ~UnitDimensional(r.u)
Cancel(ex) == IF ZeroDim(ex) THEN SelectSeq(ex, NotDimensional) ELSE ex

\* exact factor of an exponent map (integer exponents, table factors known)
ExactOK(ex) == \A i \in DOMAIN ex : RIsInt(ex[i].e) /\ UInfo[ex[i].u].fac # <<>> /\ RAbsI(ex[i].e[1]) <= 2
RECURSIVE FacQ(_)
FacQ(ex) == IF ex = <<>> THEN ROne
            ELSE RMul(RPowInt(UInfo[Head(ex).u].fac, Head(ex).e[1]), FacQ(Tail(ex)))

-----------------------------------------------------------------------------
\* terms (evaluated by the harness; tab(u) = the table's factor of unit id u including its prefix)
TQ(x) == [t |-> "q", n |-> x[1], d |-> x[2]]
TTab(u) == [t |-> "tab", u |-> u]
TMul(a, b) == [t |-> "mul", a |-> a, b |-> b]
TDiv(a, b) == [t |-> "div", a |-> a, b |-> b]
TAdd(a, b) == [t |-> "add", a |-> a, b |-> b]
TSub(a, b) == [t |-> "sub", a |-> a, b |-> b]
TNeg(a) == [t |-> "neg", a |-> a]
TAbs(a) == [t |-> "abs", a |-> a]
TPowQ(a, x) == [t |-> "powq", a |-> a, n |-> x[1], d |-> x[2]]
TObs(p) == [t |-> "obs", p |-> p]
TP10(a) == [t |-> "p10", a |-> a]                       \* 10 ** a
RECURSIVE TFac(_)
TFac(ex) == IF ex = <<>> THEN TQ(ROne)
            ELSE TMul(TPowQ(TTab(Head(ex).u), Head(ex).e), TFac(Tail(ex)))
TBase(a) == TMul(TQ(a.v), TFac(a.ex))

-----------------------------------------------------------------------------
\* the ideal
BinOps == {"add", "sub", "mul", "div"}
PowForms == {"int", "pair", "float", "fraction", "np.float64", "np.float32", "np.int64", "np.power", "np.sqrt", "np.cbrt"}

\* np.linspace / np.logspace (documentation: "units of the first quantity-argument are preserved"; a plain number is
\* read in the units of the quantity argument): n points whose end points are the two arguments - for logspace the
\* exponents of 10 - re-expressed in the result units.  Element k of n (k = 0..n-1):
SpaceOps == {"np.linspace", "np.logspace"}
SpaceN == 3
\* (convex combination, so that each end point is exactly an argument whatever the ratio of their sizes)
LinBaseT(a, b, k) == TAdd(TMul(TQ(R(SpaceN - 1 - k, SpaceN - 1)), TBase(a)), TMul(TQ(R(k, SpaceN - 1)), TBase(b)))
SpaceValT(op, a, b, k, ex) ==
  LET x == TDiv(LinBaseT(a, b, k), TFac(ex)) IN IF op = "np.logspace" THEN TP10(x) ELSE x
SpaceBaseT(op, a, b, k, ex) == TMul(SpaceValT(op, a, b, k, ex), TFac(ex))

\* inputs on which the statement says nothing (division by zero, 0**negative, root of a negative)
Unspecified(op, a, b, n) ==
  \/ op = "div" /\ RIsZero(b.v)
  \/ op = "pow" /\ RIsZero(a.v) /\ RSign(n) <= 0
  \/ op = "pow" /\ RSign(a.v) < 0 /\ ~RIsInt(n)
  \/ op \in SpaceOps /\ Dim(a.ex) # Dim(b.ex)      \* end points of different dimension: a matter of the conversion rules (C04)

Refused(op, a, b) == op \in {"add", "sub"} /\ Dim(a.ex) # Dim(b.ex)

\* the units a quantity written with exponent map ex carries (the rule applies to every quantity, operands included;
\* the base-dimension value v.Fac(ex) is not affected)
NEx(a) == Cancel(a.ex)

ResEx(op, a, b, n) ==
  CASE op \in {"add", "sub", "neg"} \cup SpaceOps -> NEx(a)
    [] op = "mul" -> Cancel(ExMerge(NEx(a), NEx(b), 1))
    [] op = "div" -> Cancel(ExMerge(NEx(a), NEx(b), -1))
    [] op = "pow" -> Cancel(ExScale(NEx(a), n))

ResBaseT(op, a, b, n) ==
  CASE op = "add" -> TAdd(TBase(a), TBase(b))
    [] op = "sub" -> TSub(TBase(a), TBase(b))
    [] op = "mul" -> TMul(TBase(a), TBase(b))
    [] op = "div" -> TDiv(TBase(a), TBase(b))
    [] op = "neg" -> TNeg(TBase(a))
    [] op = "pow" -> TPowQ(TBase(a), n)
    [] op \in SpaceOps -> SpaceBaseT(op, a, b, 0, NEx(a))          \* first element; all elements: SpaceBaseT(.., k, ..)

\* exact base-dimension value where the spec can compute it
BaseQ(a) == RMul(a.v, FacQ(a.ex))
ResExactOK(op, a, b, n) ==
  /\ op \notin SpaceOps
  /\ ExactOK(a.ex) /\ (op \in BinOps => ExactOK(b.ex))
  /\ (op = "pow" => RIsInt(n) /\ RAbsI(n[1]) <= 2)
ResBaseQ(op, a, b, n) ==
  CASE op = "add" -> RAdd(BaseQ(a), BaseQ(b))
    [] op = "sub" -> RSub(BaseQ(a), BaseQ(b))
    [] op = "mul" -> RMul(BaseQ(a), BaseQ(b))
    [] op = "div" -> RDiv(BaseQ(a), BaseQ(b))
    [] op = "neg" -> RNeg(BaseQ(a))
    [] op = "pow" -> RPowInt(BaseQ(a), n[1])

-----------------------------------------------------------------------------
\* transcription of the exponent scaling of the code (Fraction.__mul__/__truediv__).  fx = the named deviations that
\* have been repaired in the tree (status "fixed" in known_findings): a repaired deviation is transcribed as the ideal.
TruncQ(x) == IF x[1] >= 0 THEN x[1] \div x[2] ELSE -((-x[1]) \div x[2])
FloatForm(form, n) == form \in {"float", "np.float64", "np.float32"} \/ (form = "np.power" /\ ~RIsInt(n))
\* np.float64 is a Python float; np.float32 is not, and still takes the integer branch (named deviation
\* npfloat32_exponent_truncated)
TruncDev(form) == IF form = "np.float32" THEN "npfloat32_exponent_truncated" ELSE "float_exponent_truncated"
MachScaleE(e, n, form, fx) ==
  IF FloatForm(form, n) /\ TruncDev(form) \notin fx
  THEN R(TruncQ(RMul(RInt(e[1]), n)), e[2])                         \* Fraction(int(num*float), den)  (before 3073bfc for every float)
  ELSE RMul(e, n)                                                   \* pairs, ints, Fractions; floats via the rational they denote
MachPowEx(ex, n, form, fx) ==
  Cancel(ExDropZero([i \in DOMAIN ex |-> [u |-> ex[i].u, e |-> MachScaleE(ex[i].e, n, form, fx)]]))
PowTags(a, n, form, fx) ==
  IF ~ExSame(MachPowEx(NEx(a), n, form, fx), Cancel(ExScale(NEx(a), n))) THEN {TruncDev(form)} ELSE {}

\* transcription of operator dispatch when the LEFT operand is a NumPy number: ndarray.__op__ hands the operation to
\* Quantity.__array_ufunc__; before a4bb9e4 its default branch read inputs[0].magnitude (named deviation
\* numpy_left_operand; the reflected operator that handles Python numbers was never reached)
DispatchTags(side, num, fx) ==
  IF side = "nq" /\ num = "np" /\ "numpy_left_operand" \notin fx THEN {"numpy_left_operand"} ELSE {}
=============================================================================
