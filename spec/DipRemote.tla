------------------------------- MODULE DipRemote ------------------------------
(***************************************************************************)
(* C17 across parses of ONE process: what {model?g} and {model?*} deliver  *)
(* is a function of the files as they are WHEN THE PARSE RUNS - the text   *)
(* of the remote file, the files it reads itself ($source inner = ...) and *)
(* the sources its parent declared before it ($source cfg = ...), never of *)
(* an earlier parse.                                                       *)
(*                                                                         *)
(* Files:   inner.dip   v float = <inner> m          (rewritten by SetInner)*)
(*          cfgA.dip / cfgB.dip   v float = <CfgVal> m                      *)
(*          outerN.dip  $source inner = inner.dip ; g float = {inner?v}     *)
(*          outerI.dip  g float = {cfg?v}      (cfg comes from the parent)  *)
(* Main texts (source name `model` in all of them):                        *)
(*   N     $source model = outerN.dip ; x float = {model?g} ; h {model?*}   *)
(*   I(c)  $source cfg = cfg<c>.dip ; $source model = outerI.dip ; same     *)
(* History: SetInner(v) and Parse(kind) in any order.                      *)
(* IDEAL: Parse reads the current files.  MACHINE: Cache = "off" parses a   *)
(* remote file whenever it is named (the code); Cache = "memo" keeps the   *)
(* first result per (source name, path, text of the remote file) - the     *)
(* outer files never change, so later parses see stale values.             *)
(***************************************************************************)
EXTENDS Naturals, Sequences, TLC, Json

CONSTANTS InnerVals, CfgA, CfgB, MaxOps, Cache, Emit

VARIABLES inner, memo, hist, last
vars == <<inner, memo, hist, last>>

Kinds == {"N", "IA", "IB"}
Outer(kind) == IF kind = "N" THEN "outerN" ELSE "outerI"
\* value of g the remote file has when it is parsed now
Fresh(kind) == CASE kind = "N" -> inner [] kind = "IA" -> CfgA [] OTHER -> CfgB

Init == /\ inner = (CHOOSE v \in InnerVals : \A w \in InnerVals : v <= w)
        /\ memo = [o \in {"outerN", "outerI"} |-> 0] /\ hist = <<>> /\ last = [ideal |-> 0, mach |-> 0]

SetInner(v) == /\ Len(hist) < MaxOps /\ v # inner /\ inner' = v
               /\ hist' = Append(hist, [op |-> "set", v |-> v, expect |-> 0])
               /\ UNCHANGED <<memo, last>>

Parse(kind) ==
  /\ Len(hist) < MaxOps
  /\ LET o == Outer(kind)
         g == IF Cache = "memo" /\ memo[o] # 0 THEN memo[o] ELSE Fresh(kind)
     IN /\ memo' = IF Cache = "memo" /\ memo[o] = 0 THEN [memo EXCEPT ![o] = Fresh(kind)] ELSE memo
        /\ last' = [ideal |-> Fresh(kind), mach |-> g]
        /\ hist' = Append(hist, [op |-> "parse", v |-> 0, kind |-> kind, expect |-> Fresh(kind)])
  /\ UNCHANGED inner

Next == (\E v \in InnerVals : SetInner(v)) \/ (\E k \in Kinds : Parse(k))
Spec == Init /\ [][Next]_vars

\* every parse delivers the value the files hold now
FreshResult == last.mach = last.ideal
EmitInv == (Emit /\ hist # <<>> /\ hist[Len(hist)].op = "parse") => PrintT(ToJson(hist))
=============================================================================
