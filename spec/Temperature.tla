----------------------------- MODULE Temperature -----------------------------
(***************************************************************************)
(* C05, temperature units.                                                 *)
(*                                                                         *)
(* IDEAL: every temperature unit is an affine map to kelvin with exact     *)
(* rational coefficients,  ToK[u](x) = a*x + b :                           *)
(*      K    : x            prefixed K : x * 10^p                          *)
(*      Cel  : x + 273.15                                                  *)
(*      degF : (x + 459.67) * 5/9                                          *)
(*      degR : x * 5/9                                                     *)
(* and Conv(u, v, x) = FromK[v](ToK[u](x)).                                *)
(*                                                                         *)
(* MACHINE: transcription of TemperatureUnitType (the ten pairwise         *)
(* formulas, applied to value*magnitude(u) and divided by magnitude(v)),   *)
(* StandardUnitType for the pairs without Cel / degF, and UnitType.convert *)
(* raising when the method does not exist.                                 *)
(***************************************************************************)
EXTENDS UnitAtom

\* a temperature unit: [name, p10] - prefix exponent only for K
TU(name, p) == [name |-> name, p |-> p]
Pow10Q(e) == LET F[i \in 0..Abs(e)] == IF i = 0 THEN 1 ELSE 10 * F[i - 1]
             IN IF e >= 0 THEN <<F[e], 1>> ELSE <<1, F[0 - e]>>
C27315 == <<27315, 100>>
C45967 == <<45967, 100>>
C49167 == <<49167, 100>>
C32    == <<32, 1>>
F59    == <<5, 9>>
F95    == <<9, 5>>

ToK(u, x) ==
  CASE u.name = "K"    -> QMul(x, Pow10Q(u.p))
    [] u.name = "Cel"  -> QAdd(x, C27315)
    [] u.name = "degF" -> QMul(QAdd(x, C45967), F59)
    [] u.name = "degR" -> QMul(x, F59)
FromK(u, k) ==
  CASE u.name = "K"    -> QDiv(k, Pow10Q(u.p))
    [] u.name = "Cel"  -> QSub(k, C27315)
    [] u.name = "degF" -> QSub(QMul(k, F95), C45967)
    [] u.name = "degR" -> QMul(k, F95)
Conv(u, v, x) == FromK(v, ToK(u, x))
Meaningful(u, x) == ~QLt(ToK(u, x), QZero)            \* at or above absolute zero

(* ------------------------------------------------------------ machine    *)
\* library magnitudes: K 1 (times the prefix), Cel 1, degF 1, degR 5/9
MMag(u) == CASE u.name = "K" -> Pow10Q(u.p) [] u.name = "degR" -> F59 [] OTHER -> QOne
MMethod(a, b, v) ==
  CASE a = "K"    /\ b = "Cel"  -> QSub(v, C27315)
    [] a = "K"    /\ b = "degF" -> QAdd(QMul(QSub(v, C27315), F95), C32)
    [] a = "degR" /\ b = "degF" -> QSub(QMul(v, F95), C45967)
    [] a = "degR" /\ b = "Cel"  -> QMul(QSub(QMul(v, F95), C49167), F59)
    [] a = "Cel"  /\ b = "K"    -> QAdd(v, C27315)
    [] a = "Cel"  /\ b = "degF" -> QAdd(QMul(v, F95), C32)
    [] a = "Cel"  /\ b = "degR" -> QMul(QAdd(QMul(v, F95), C49167), F59)
    [] a = "degF" /\ b = "K"    -> QAdd(QMul(QSub(v, C32), F59), C27315)
    [] a = "degF" /\ b = "Cel"  -> QMul(QSub(v, C32), F59)
    [] a = "degF" /\ b = "degR" -> QMul(QAdd(v, C45967), F59)
MName(a, b) == a \o "_" \o b
\* -> [ok, q]
Mach(u, v, x) ==
  IF u.name \in MTempProcess \/ v.name \in MTempProcess
  THEN (IF MName(u.name, v.name) \in MTempMethods /\ MName(u.name, v.name) \in
              {"K_Cel", "K_degF", "degR_degF", "degR_Cel", "Cel_K", "Cel_degF", "Cel_degR", "degF_K", "degF_Cel", "degF_degR"}
        THEN [ok |-> TRUE, q |-> QDiv(MMethod(u.name, v.name, QMul(x, MMag(u))), MMag(v))]
        ELSE IF MName(u.name, v.name) \in MTempMethods /\ u.name = v.name
        THEN [ok |-> TRUE, q |-> QDiv(QMul(x, MMag(u)), MMag(v))]       \* an identity method (only in a repaired tree)
        ELSE [ok |-> FALSE, q |-> QZero])                    \* 'Conversion method is not implemented'
  ELSE [ok |-> TRUE, q |-> QDiv(QMul(x, MMag(u)), MMag(v))]   \* StandardUnitType, equal dimensions: linear
=============================================================================
