------------------------------ MODULE UnitConv ------------------------------
(***************************************************************************)
(* C04: which rule converts a quantity from units A to units B, and what   *)
(* the value must be.  A side is an exponent map (UnitExpr: sequence of    *)
(* <<id, q>>, zero exponents dropped); the empty map is "no unit".         *)
(*                                                                         *)
(* IDEAL  Rule(A, B), from the property and the documentation:             *)
(*   no offset (Cel, degF) and no logarithmic unit on either side:         *)
(*      equal dimensions            -> "linear"    x * F(A) / F(B)         *)
(*      exactly negated dimensions  -> "inverse"   1 / (x * F(A)) / F(B)   *)
(*      no unit -> radian           -> "nounit_rad" x * F(A) / F(B)        *)
(*        (no unit: none at all, or a dimensionless combination of         *)
(*         dimensional units, which Quantity folds into the number)        *)
(*      otherwise                   -> "reject"   (raises, quantity kept)  *)
(*   an offset unit occurs:  both sides one temperature unit, exponent 1   *)
(*      -> "affine" (C05);  dimensions neither equal nor negated -> reject;*)
(*      else unspecified                                                   *)
(*   a logarithmic unit occurs: a documented pair -> "log:<kind>" (C05);   *)
(*      dimensions neither equal nor negated -> reject;  else unspecified  *)
(*                                                                         *)
(* MACHINE MRule(A, B): the loop over UNIT_TYPES (Temperature,             *)
(* Logarithmic, Standard) with the _istype tests as the code writes them   *)
(* (lists of base symbols, first symbol of each side, method names).       *)
(***************************************************************************)
EXTENDS LogUnits

CONSTANT ConvDevs     \* which named deviations of the dispatch the code still has (tags of the OPEN C04 findings):
                      \* "nounit_to_rad_power", "offset_dim_mismatch", "log_dim_mismatch"; a repaired tree has none

OffsetNames == {"Cel", "degF"}                     \* documented temperature units with an offset
TempNames   == {"K", "Cel", "degF", "degR"}
Names(A) == {IdName(A[i][1]) : i \in 1..Len(A)}
NameSeq(A) == [i \in 1..Len(A) |-> IdName(A[i][1])]     \* BaseUnits.units
DNeg(d) == [i \in 1..8 |-> QNeg(d[i])]
DZero == [i \in 1..8 |-> QZero]
IsRad1(B) == Len(B) = 1 /\ IdName(B[1][1]) = "rad" /\ B[1][2] = QOne
SingleTemp(A) == Len(A) = 1 /\ A[1][2] = QOne /\ IdName(A[1][1]) \in TempNames
               /\ (A[1][1][2] = 0 \/ IdName(A[1][1]) = "K")

\* Quantity.__init__: when the total dimension is zero, every unit that is itself dimensional is folded into
\* the magnitude and dropped (documented: "reset base units if dimensions are all zero") - a dimensionless
\* combination of dimensional units is a bare number
IsDimless(r) == IdDim(r) = DZero
Fold(A) == IF DimSum(A) = DZero THEN SelectSeq(A, LAMBDA x : IsDimless(x[1])) ELSE A

Rule(A, B) ==
  LET da == DimSum(A)  db == DimSum(B)
      \* the source is a quantity: what its constructor folded away is no longer a unit of it
      off == (Names(Fold(A)) \cup Names(B)) \cap OffsetNames # {}
      lg  == (Names(Fold(A)) \cup Names(B)) \cap LogNames # {}
  IN IF ~off /\ ~lg THEN
          (IF da = db THEN "linear"
           ELSE IF da = DNeg(db) THEN "inverse"
           ELSE IF Fold(A) = <<>> /\ IsRad1(B) THEN "nounit_rad"
           ELSE "reject")
     ELSE IF off THEN
          (IF SingleTemp(A) /\ SingleTemp(B) THEN "affine"
           ELSE IF da # db /\ da # DNeg(db) THEN "reject"
           ELSE "unspecified")
     ELSE (IF LogPair(A, B) # "" THEN "log:" \o LogPair(A, B)
           ELSE IF da # db /\ da # DNeg(db) THEN "reject"
           ELSE "unspecified")

Accepts(r) == r \in {"linear", "inverse", "nounit_rad", "affine"} \/ (r # "reject" /\ r # "unspecified")

(* ------------------------------------------------------------ value obligations (terms) *)
ExpectTerm(r, A, B) ==
  CASE r = "linear"     -> <<"div", <<"mul", X, FactorTerm(A)>>, FactorTerm(B)>>
    [] r = "nounit_rad" -> <<"div", <<"mul", X, FactorTerm(A)>>, FactorTerm(B)>>
    [] r = "inverse"    -> <<"div", <<"inv", <<"mul", X, FactorTerm(A)>>>>, FactorTerm(B)>>
    [] OTHER            -> Q(0, 1)
\* the intermediate x*F(A) the property's "up to rounding" clause needs to stay inside a double
InterTerm(A) == <<"mul", X, FactorTerm(A)>>
\* the magnitudes of the property's quantifier: 0, 1, -3, 2.5e-7, 1e30 and an array
Magnitudes == << Q(0, 1), Q(1, 1), Q(-3, 1), <<"mul", Q(25, 1), P10(-8)>>, P10(30) >>
ArrayMags  == << Q(1, 1), Q(-3, 1), <<"mul", Q(25, 1), P10(-8)>>, Q(4, 1) >>
\* "all finite magnitudes including 0": a refusal must not depend on the magnitude - zero, negative zero and an
\* all-zero array are refused like any other value
ZeroMags   == << Q(0, 1), <<"neg", Q(0, 1)>> >>
ZeroArray  == << Q(0, 1), <<"neg", Q(0, 1)>>, Q(0, 1) >>
\* the TARGET of to() may itself be a quantity  m v  ("how many m v is x u"): the result is the conversion to v
\* divided by m; a refusal is the same refusal, and leaves source and target as they were
TargetMags == << Q(1, 1), Q(5, 2), <<"mul", Q(2, 1), P10(3)>>, Q(-4, 1) >>
QTargetTerm(r, A, B) == <<"div", ExpectTerm(r, A, B), <<"y">>>>          \* y: magnitude of the target quantity
\* a quantity may carry an uncertainty (abse / rele): the converted VALUE is the conversion of the exact value,
\* for every conversion family.  <<kind, amount>>: "rele" percent; "abse_frac" = that fraction of |x| (of 1 at x = 0)
Uncertainties == << <<"rele", Q(10, 1)>>, <<"abse_frac", Q(1, 5)>>, <<"abse_frac", Q(3, 2)>> >>
\* magnitude kinds of the library (float, Decimal, array): a conversion keeps the kind, and its result does not
\* depend on which kinds were converted to the same target before
MagKinds   == <<"float", "decimal", "array">>

(* ------------------------------------------------------------ MACHINE    *)
MRule(A, B) ==
  LET u1 == NameSeq(Fold(A))  u2 == NameSeq(B)
      all == {u1[i] : i \in 1..Len(u1)} \cup {u2[i] : i \in 1..Len(u2)}
      da == DimSum(A)  db == DimSum(B)
  IN IF all \cap MTempProcess # {} THEN
          (IF Len(u1) # 1 \/ Len(u2) # 1 THEN "reject"                       \* Only simple units ...
           ELSE IF "offset_dim_mismatch" \notin ConvDevs /\ da # db THEN "reject"   \* repaired: dimensions are compared
           ELSE IF (u1[1] \o "_" \o u2[1]) \in MTempMethods THEN "temp:" \o u1[1] \o "_" \o u2[1]
           ELSE "reject")                                                      \* Conversion method is not implemented
     ELSE IF all \cap MLogProcess # {} THEN
          (IF Len(u1) \notin {1, 2} \/ Len(u2) \notin {1, 2} THEN "reject"
           ELSE IF "log_dim_mismatch" \notin ConvDevs /\ da # db THEN "reject"      \* repaired: dimensions are compared
           ELSE IF MEntry(u1[1], u2[1]).fn # "" THEN "log:" \o u1[1] \o "_" \o u2[1]
           ELSE IF (u1[1] \o "_" \o u2[1]) \in MLogMethods THEN "logm:" \o u1[1] \o "_" \o u2[1]
           ELSE "reject")
     ELSE IF da = db THEN "linear"
     ELSE IF DNeg(da) = db THEN "inverse"
     ELSE IF Fold(A) = <<>> /\ u2 = <<"rad">> /\ ("nounit_to_rad_power" \in ConvDevs \/ db = [i \in 1..8 |-> IF i = 8 THEN QOne ELSE QZero])
          THEN "linear"                                                        \* repaired: the dimension must be rad^1
     ELSE "reject"                                                             \* Unsupported conversion between units
MAccepts(m) == m # "reject"

(* ------------------------------------------------------------ scenario features (tags) *)
ConvTags(A, B) ==
  LET da == DimSum(A)  db == DimSum(B)
      mism == da # db /\ da # DNeg(db) IN
  (IF Fold(A) = <<>> /\ B # <<>> /\ Names(B) = {"rad"} /\ ~IsRad1(B) THEN {"nounit_to_rad_power"} ELSE {})
  \cup (IF mism /\ (Names(Fold(A)) \cup Names(B)) \cap OffsetNames # {} THEN {"offset_dim_mismatch"} ELSE {})
  \cup (IF mism /\ (Names(Fold(A)) \cup Names(B)) \cap LogNames # {} THEN {"log_dim_mismatch"} ELSE {})
  \cup (IF A = <<>> THEN {"nounit"} ELSE {})

\* does the machine's choice agree with the ideal's rule?
Agrees(r, m) ==
  CASE r = "unspecified" -> TRUE
    [] r = "reject"      -> m = "reject"
    [] r = "linear"      -> m = "linear"
    [] r = "nounit_rad"  -> m = "linear"
    [] r = "inverse"     -> m = "inverse"
    [] OTHER             -> m # "reject"

(* ------------------------------------------------------------ the whole table, fast *)
\* single table units (index 0 = no unit): dimension classes computed once
UMap(u) == IF u = 0 THEN <<>> ELSE << <<<<"u", 0, u>>, QOne>> >>
UDim == TLCEval([u \in 0..NU |-> IF u = 0 THEN DZero ELSE Units[u].dim])
DimId == TLCEval([u \in 0..NU |-> CHOOSE v \in 0..NU : UDim[v] = UDim[u] /\ \A w \in 0..(v - 1) : UDim[w] # UDim[u]])
NegId == TLCEval([u \in 0..NU |-> IF \E v \in 0..NU : UDim[v] = DNeg(UDim[u])
                          THEN CHOOSE v \in 0..NU : UDim[v] = DNeg(UDim[u]) /\ \A w \in 0..(v - 1) : UDim[w] # DNeg(UDim[u])
                          ELSE 0 - 1])
PlainSet == TLCEval({u \in 0..NU : u = 0 \/ (Units[u].name \notin OffsetNames /\ Units[u].name \notin LogNames)})
ExactSet == TLCEval({u \in 0..NU : u = 0 \/ Units[u].m10ok})
RadIdx == CHOOSE u \in 1..NU : Units[u].name = "rad"
Plain(u) == u \in PlainSet
\* members of a dimension class (by representative); every w with SRule(v, w) in {linear, inverse} lies in
\* the class of v or in the negated class
Members == TLCEval([c \in 0..NU |-> {w \in 1..NU : DimId[w] = c /\ w \in PlainSet}])
Related(v) == Members[DimId[v]] \cup (IF NegId[v] >= 0 THEN Members[NegId[v]] ELSE {})
\* the rule for two plain single units by class ids only
SRule(u, v) == IF DimId[u] = DimId[v] THEN "linear"
               ELSE IF NegId[u] = DimId[v] THEN "inverse"
               ELSE IF u = 0 /\ v = RadIdx THEN "nounit_rad"
               ELSE "reject"

\* exact value model for units whose table factor is a power of ten: value = q * 10^e
FExp(u) == IF u = 0 THEN 0 ELSE Units[u].m10
FExact(u) == u \in ExactSet
ConvQ(r, x, u, v) == CASE r \in {"linear", "nounit_rad"} -> [q |-> x.q, e |-> x.e + FExp(u) - FExp(v)]
                       [] r = "inverse" -> [q |-> QInv(x.q), e |-> 0 - x.e - FExp(u) - FExp(v)]
ModelXs == {[q |-> <<1, 1>>, e |-> 0], [q |-> <<0 - 3, 1>>, e |-> 0], [q |-> <<5, 2>>, e |-> 0 - 7]}
=============================================================================
