------------------------------- MODULE DipTree -------------------------------
(***************************************************************************)
(* DIP texts at line level: groups, node definitions, modifications and    *)
(* @case/@else/@end clauses arranged by indentation (properties C13, C14   *)
(* in its simplest form, C15).                                             *)
(*                                                                         *)
(* A line is  [k, ind, nm, v, c]                                            *)
(*   k   "grp" | "def" | "mod" | "case" | "else" | "end"                     *)
(*   ind indentation LEVEL (the replay chooses the number of blanks)       *)
(*   nm  name as a sequence of dot-separated components, <<>> for clauses  *)
(*   v   the value written on a def/mod line (every line its own)          *)
(*   c   truth value of an @case condition                                  *)
(*                                                                         *)
(* IDEAL  (IdealRun): what the documentation says - a forest built from    *)
(* indentation, clause lines transparent for names, block-structured       *)
(* clauses, a line takes effect iff every enclosing clause is selected.    *)
(* MACHINE (MachRun): what dip.py / list_hierarchy.py / list_branching.py  *)
(* do, line by line (since fix 09572d2: blocks delimited by indentation;   *)
(* the transcription of the earlier name-path algorithm, with its string   *)
(* comparison of case paths, is kept in DipTreeOld.tla for the record).    *)
(***************************************************************************)
EXTENDS Naturals, Sequences, FiniteSets, TLC

CONSTANTS NameChars(_),   \* characters of a name component, as a sequence of one-character strings
          CharOrd(_)      \* code point of a character (the code compares case paths as strings)

Front(s) == SubSeq(s, 1, Len(s) - 1)
Last(s)  == s[Len(s)]
IsClause(ln) == ln.k \in {"case", "else", "end"}

-----------------------------------------------------------------------------
(* IDEAL *)

\* frames: hierarchy parents ("p") and open clause blocks ("b") on one stack
PFrame(ind, nm) == [t |-> "p", ind |-> ind, nm |-> nm, taken |-> FALSE, cur |-> TRUE, els |-> FALSE]
\* a clause keyword may carry a path prefix (`plant.@case ...`), which then prefixes the nodes of the clause
BFrame(ind, c, nm) == [t |-> "b", ind |-> ind, nm |-> nm, taken |-> c, cur |-> c, els |-> FALSE]

RECURSIVE PopNode(_, _), PopClause(_, _)
\* a node or group line at level i ends every parent and every block that is not shallower
PopNode(fr, i) == IF fr # <<>> /\ Last(fr).ind >= i THEN PopNode(Front(fr), i) ELSE fr
\* a clause line at level i ends deeper frames and sibling nodes, not a block at its own level
PopClause(fr, i) == IF fr # <<>> /\ (Last(fr).ind > i \/ (Last(fr).ind = i /\ Last(fr).t = "p"))
                    THEN PopClause(Front(fr), i) ELSE fr

RECURSIVE PathOf(_)
PathOf(fr) == IF fr = <<>> THEN <<>> ELSE PathOf(Front(fr)) \o Last(fr).nm
Active(fr) == \A j \in 1..Len(fr) : fr[j].t = "b" => fr[j].cur

IndexOfPath(nodes, p) == IF \E j \in 1..Len(nodes) : nodes[j].p = p
                         THEN CHOOSE j \in 1..Len(nodes) : nodes[j].p = p ELSE 0

IdealInit == [fr |-> <<>>, nodes |-> <<>>, ok |-> TRUE, u |-> FALSE, prevend |-> 99]

IdealStep(st, ln) ==
  IF ~st.ok THEN st
  ELSE IF ~IsClause(ln) THEN
     LET fr1  == PopNode(st.fr, ln.ind)
         path == PathOf(fr1) \o ln.nm
         act  == Active(fr1)
         j    == IndexOfPath(st.nodes, path)
         fr2  == Append(fr1, PFrame(ln.ind, ln.nm))
         \* a line deeper than a directly preceding @end has no documented parent
         u2   == st.u \/ ln.ind > st.prevend
     IN IF ln.k = "grp" \/ ~act THEN [st EXCEPT !.fr = fr2, !.u = u2, !.prevend = 99]
        ELSE IF j # 0 THEN [st EXCEPT !.fr = fr2, !.u = u2, !.prevend = 99, !.nodes[j].v = ln.v]   \* last assignment wins
        ELSE IF ln.k = "mod" THEN [st EXCEPT !.ok = FALSE]                         \* modification of an undefined node
        ELSE [st EXCEPT !.fr = fr2, !.u = u2, !.prevend = 99, !.nodes = Append(st.nodes, [p |-> path, v |-> ln.v])]
  ELSE
     LET fr1  == PopClause(st.fr, ln.ind)
         same == fr1 # <<>> /\ Last(fr1).t = "b" /\ Last(fr1).ind = ln.ind
         top  == Last(fr1)
         n    == Len(fr1)
         u2   == st.u \/ ln.ind > st.prevend
     IN CASE ln.k = "case" ->
               IF same
               THEN [st EXCEPT !.fr = [fr1 EXCEPT ![n].cur = ~top.taken /\ ln.c, ![n].taken = top.taken \/ ln.c, ![n].nm = ln.nm],
                               !.u = u2 \/ top.els,                                 \* @case after @else: undocumented
                               !.prevend = 99]
               ELSE [st EXCEPT !.fr = Append(fr1, BFrame(ln.ind, ln.c, ln.nm)), !.u = u2, !.prevend = 99]
          [] ln.k = "else" ->
               IF same
               THEN [st EXCEPT !.fr = [fr1 EXCEPT ![n].cur = ~top.taken, ![n].taken = TRUE, ![n].els = TRUE, ![n].nm = ln.nm],
                               !.u = u2 \/ top.els,                                 \* second @else: undocumented
                               !.prevend = 99]
               ELSE [st EXCEPT !.ok = FALSE]                                        \* misplaced @else
          [] ln.k = "end" ->
               IF same THEN [st EXCEPT !.fr = Front(fr1), !.u = u2, !.prevend = ln.ind]
               ELSE [st EXCEPT !.ok = FALSE]                                        \* misplaced @end

RECURSIVE IdealFold(_, _)
IdealFold(st, text) == IF text = <<>> THEN st ELSE IdealFold(IdealStep(st, Head(text)), Tail(text))
IdealRun(text) == LET r == IdealFold(IdealInit, text)
                  IN [ok |-> r.ok, nodes |-> IF r.ok THEN r.nodes ELSE <<>>, u |-> r.u]

-----------------------------------------------------------------------------
(* MACHINE *)

CaseComp(n) == "@" \o ToString(n)
IsCaseComp(c) == \E n \in 1..60 : c = CaseComp(n)

\* character level view of a dotted string, needed because the code compares case paths with `<`
Digits == <<"0", "1", "2", "3", "4", "5", "6", "7", "8", "9">>
CompChars(c) == IF c = "@" THEN <<"@">>
                ELSE IF IsCaseComp(c) THEN LET n == CHOOSE m \in 1..60 : c = CaseComp(m)
                                           IN IF n < 10 THEN <<"@", Digits[n + 1]>> ELSE <<"@", Digits[(n \div 10) + 1], Digits[(n % 10) + 1]>>
                ELSE NameChars(c)
RECURSIVE Chars(_)
Chars(p) == IF p = <<>> THEN <<>> ELSE IF Len(p) = 1 THEN CompChars(p[1]) ELSE CompChars(Head(p)) \o <<".">> \o Chars(Tail(p))
Ord(ch) == CASE ch = "." -> 46 [] ch = "@" -> 64
             [] ch \in {"0","1","2","3","4","5","6","7","8","9"} -> 48 + (CHOOSE d \in 0..9 : Digits[d + 1] = ch)
             [] OTHER -> CharOrd(ch)
RECURSIVE LexLess(_, _)
LexLess(s, t) == IF t = <<>> THEN FALSE
                 ELSE IF s = <<>> THEN TRUE
                 ELSE IF Ord(Head(s)) # Ord(Head(t)) THEN Ord(Head(s)) < Ord(Head(t))
                 ELSE LexLess(Tail(s), Tail(t))
StrLess(p, q) == LexLess(Chars(p), Chars(q))        \* Python  p < q  on the dotted strings

MInit == [par |-> <<>>,          \* HierarchyList.parents : [ind, nm]
          bst |-> <<>>,          \* BranchingList.state   : open branch ids
          br  |-> <<>>,          \* branches[id]         : sequence (by branch id) of [cases |-> case ids, ind |-> indentation]
          cs  |-> <<>>,          \* cases[id]            : [val, known] ; known = FALSE for ids used by @end
          nodes |-> <<>>, err |-> ""]

NoCase == [val |-> FALSE, known |-> FALSE]

\* BranchingList.close_ended(indent, clause): blocks end at a line indented no deeper than their keyword
RECURSIVE CloseEnded(_, _, _)
CloseEnded(st, i, clause) ==
  IF st.bst # <<>> /\ (i < st.br[Last(st.bst)].ind \/ (i = st.br[Last(st.bst)].ind /\ ~clause))
  THEN CloseEnded([st EXCEPT !.bst = Front(st.bst)], i, clause) ELSE st

\* one branch is "false" when its current clause is not the first true one
BranchFalse(st, b) ==
  LET cases == st.br[b].cases
      numtrue == Cardinality({j \in 1..Len(cases) : st.cs[cases[j]].val})
  IN numtrue # 1 \/ ~st.cs[Last(cases)].val
\* BranchingList.false_case(indent): any open branch (except the one at `skip` indentation) is false
FalseCase(st, skip) ==
  \E j \in 1..Len(st.bst) : st.br[st.bst[j]].ind # skip /\ BranchFalse(st, st.bst[j])
NoSkip == 99

\* HierarchyList.register
RECURSIVE PopPar(_, _)
PopPar(par, i) == IF par # <<>> /\ i <= Last(par).ind THEN PopPar(Front(par), i) ELSE par
RECURSIVE JoinPar(_)
JoinPar(par) == IF par = <<>> THEN <<>> ELSE JoinPar(Front(par)) \o Last(par).nm
Clean(name) == SelectSeq(name, LAMBDA c : ~IsCaseComp(c))

SwitchCase(st, id) == [st EXCEPT !.br[Last(st.bst)].cases = Append(@, id)]
OpenBranch(st, id, i) == [st EXCEPT !.br = Append(st.br, [cases |-> <<id>>, ind |-> i]), !.bst = Append(st.bst, Len(st.br) + 1)]

\* BranchingList.solve_case
SolveCase(st0, ln, id, val) ==
  LET st   == CloseEnded(st0, ln.ind, TRUE)
      same == st.bst # <<>> /\ st.br[Last(st.bst)].ind = ln.ind
      reg(s) == [s EXCEPT !.cs[id] = [val |-> val, known |-> TRUE]]
  IN IF ln.k = "case" THEN (IF same THEN reg(SwitchCase(st, id)) ELSE reg(OpenBranch(st, id, ln.ind)))
     ELSE IF ln.k = "else" /\ same THEN reg(SwitchCase(st, id))
     ELSE IF ln.k = "end" /\ same THEN [st EXCEPT !.bst = Front(st.bst)]
     ELSE [st EXCEPT !.err = "Invalid condition"]

MStep(st0, ln) ==
  IF st0.err # "" THEN st0
  ELSE
   LET \* (0) DIP.parse: close_ended for every line that is not empty / a property
       st   == CloseEnded(st0, ln.ind, IsClause(ln))
       \* (a) node.parse: a clause line always registers a case id and gets the name @<id>;
       \*     a @case inside an unselected clause is not evaluated and counts as false
       id   == Len(st.cs) + 1
       st1  == IF IsClause(ln) THEN [st EXCEPT !.cs = Append(st.cs, NoCase)] ELSE st
       nm   == IF IsClause(ln) THEN ln.nm \o <<CaseComp(id)>> ELSE ln.nm
       val  == IF ln.k = "case" THEN (ln.c /\ ~FalseCase(st1, ln.ind)) ELSE TRUE
       \* (b) hierarchy.register
       par2 == Append(PopPar(st1.par, ln.ind), [ind |-> ln.ind, nm |-> nm])
       full == JoinPar(par2)
       st2  == [st1 EXCEPT !.par = par2]
   IN IF ln.k = "grp" THEN st2
      ELSE IF IsClause(ln) THEN SolveCase(st2, ln, id, val)
      ELSE IF FalseCase(st2, NoSkip) THEN st2
      ELSE LET name == Clean(full)
               j    == IndexOfPath(st2.nodes, name)
           IN IF j # 0 THEN [st2 EXCEPT !.nodes[j].v = ln.v]
              ELSE IF ln.k = "mod" THEN [st2 EXCEPT !.err = "Modifying undefined node"]
              ELSE [st2 EXCEPT !.nodes = Append(st2.nodes, [p |-> name, v |-> ln.v])]

RECURSIVE MFold(_, _)
MFold(st, text) == IF text = <<>> THEN st ELSE MFold(MStep(st, Head(text)), Tail(text))
MachRun(text) == LET r == MFold(MInit, text)
                 IN [ok |-> r.err = "", nodes |-> IF r.err = "" THEN r.nodes ELSE <<>>, err |-> r.err]

-----------------------------------------------------------------------------
\* classification of a disagreement (named deviation classes of the branching code)
SetOf(nodes) == {nodes[j] : j \in 1..Len(nodes)}
PathsOf(nodes) == {nodes[j].p : j \in 1..Len(nodes)}
Dev(text) ==
  LET i == IdealRun(text)  m == MachRun(text) IN
  IF i.ok = m.ok /\ i.nodes = m.nodes THEN "none"
  ELSE IF i.ok /\ ~m.ok THEN (IF m.err = "IndexError" THEN "legal_raises_indexerror"
                              ELSE IF m.err = "Invalid condition" THEN "legal_raises_invalid_condition"
                              ELSE "legal_raises_other")
  ELSE IF ~i.ok /\ m.ok THEN "illegal_accepted"
  ELSE IF PathsOf(m.nodes) \subseteq PathsOf(i.nodes) /\ PathsOf(m.nodes) # PathsOf(i.nodes) THEN "missing_node"
  ELSE IF PathsOf(i.nodes) \subseteq PathsOf(m.nodes) /\ PathsOf(m.nodes) # PathsOf(i.nodes) THEN "extra_node"
  ELSE IF PathsOf(i.nodes) = PathsOf(m.nodes) THEN "wrong_value_or_order"
  ELSE "wrong_nodes"
=============================================================================
